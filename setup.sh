#!/bin/bash
# Offline setup: make sure hypothesis (and, optionally, jsonschema) are importable by
# /venv/bin/python.  Nothing is fetched from a package index; packages that are missing
# from /venv are unpacked from the local wheelhouse into /verif/.deps (git-ignored).
set -u
cd "$(dirname "$0")"
export PIP_NO_INDEX=1
PY=/venv/bin/python
WH=/opt/veriftools/wheels
need=""
for mod in hypothesis jsonschema; do
    if ! PYTHONPATH="$PWD/.deps" $PY -c "import $mod" >/dev/null 2>&1; then
        need="$need $mod"
    fi
done
if [ -n "$need" ]; then
    mkdir -p .deps
    $PY -m pip install --quiet --no-index --find-links "$WH" --target "$PWD/.deps" $need \
        || echo "setup: could not install$need (continuing; jsonschema is optional)" >&2
fi
PYTHONPATH="$PWD/.deps" $PY -c "import hypothesis, droplets, pde; print('setup ok: hypothesis', hypothesis.__version__, 'droplets from', droplets.__file__)"
