#!/bin/bash
# tools/seeds.sh <PID> [first] [last] [tier]  - run a check at several VERIF_SEED values (fresh processes)
pid=$1; a=${2:-1}; b=${3:-5}; tier=${4:-quick}
for s in $(seq $a $b); do
  out=$(./check $pid --tier $tier --seed $s 2>&1); rc=$?
  echo "seed=$s exit=$rc $(echo "$out" | grep -E "^\[$pid\] tier" | sed 's/.*evaluations/evaluations/')"
  [ $rc -ne 0 ] && echo "$out" | grep -E "signature|VIOLATION|HARNESS" | head -5
done
true
