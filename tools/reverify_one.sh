#!/bin/bash
# tools/reverify_one.sh <seed-name>: re-runs the recorded quick check(s) of one seeded change against a scratch tree; prints the
# verdicts and flags a change of verdict with respect to meta.json
cd /verif
d=seeded/$1
checks=$(python3 -c "import json;print(' '.join(json.load(open('$d/meta.json'))['checks'].keys()))")
line="$1"
for c in $checks; do
  out=$(tools/with_tree.sh HEAD /verif/$d/patch.diff -- ./check $c --tier quick 2>&1)
  if echo "$out" | grep -q "^VIOLATION"; then v=CAUGHT; elif echo "$out" | grep -q "HARNESS-ERROR\|does not apply"; then v=ERROR; else v=MISSED; fi
  rec=$(python3 -c "import json;print(json.load(open('$d/meta.json'))['checks']['$c']['verdict'])")
  flag=""; [ "$v" != "$rec" ] && flag="(!was $rec)"
  line="$line $c=$v$flag"
done
echo "$line"
