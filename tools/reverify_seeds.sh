#!/bin/bash
# tools/reverify_seeds.sh [pattern]  - re-runs the registered quick check(s) of every seeded change against a scratch worktree of
# /repo HEAD with the patch applied (no demo, no test-suite) and prints one line per seed: <name> <check>=<verdict> ...
# Verdicts are compared with meta.json; a seed whose recorded CAUGHT turns into MISSED is a regression of the machinery.
cd /verif
pat=${1:-}
for d in seeded/*${pat}*/; do
  name=$(basename $d)
  checks=$(python3 -c "import json;print(' '.join(json.load(open('$d/meta.json'))['checks'].keys()))")
  line="$name"
  for c in $checks; do
    out=$(tools/with_tree.sh HEAD /verif/$d/patch.diff -- ./check $c --tier quick 2>&1); 
    if echo "$out" | grep -q "^VIOLATION"; then v=CAUGHT; elif echo "$out" | grep -q "HARNESS-ERROR\|does not apply"; then v=ERROR; else v=MISSED; fi
    rec=$(python3 -c "import json;print(json.load(open('$d/meta.json'))['checks']['$c']['verdict'])")
    flag=""; [ "$v" != "$rec" ] && flag="(!was $rec)"
    line="$line $c=$v$flag"
  done
  echo "$line"
done
