"""Which properties are claimed, with what technique / level (source for MANIFEST.json)."""

NOTES = (
    "All checks: ./check <ID> --tier quick|thorough [--seed N] (VERIF_SEED / VERIF_TIER honoured). "
    "Exit 0 held / 1 VIOLATION line printed / 2 harness error (never a VIOLATION). Evidence is rewritten "
    "on every run. Known findings: known_findings.json (never written at run time)."
)

_T = "property-based testing (Hypothesis, generated specs vs. independent oracle)"

CLAIMED = {
    "C01": {
        "technique": _T + "; constructive preconditions, covered-cell-set oracle under an independent minimal-image metric",
        "level": "Generated grids of all four families (Cartesian 1-3D x all periodicity masks x anisotropy 0.4-2.5 x 3.5 decades of spacing) and 0-4 rendered droplets satisfying the stated separation/resolution preconditions by construction; count, volume, half-cell centre bound and in-box position checked against an independent covered-cell oracle; centres up to several periods outside the box; exhaustive corner sweep (7 sub-cell offsets per axis x up to 8 radii around the corner of periodic boxes with unequal cell counts); sibling-grid warm-up calls. Bounded search (<=24 cells per axis quick, <=48 thorough). Fixed sweep of emulsions of 36-1089 droplets (thorough 2116) on a jittered lattice displaced across the periodic boundaries. One box in eight lies 1e6-1e8 box lengths away from the origin; on cylindrical grids the judged analysis is the second one on the same grid object.",
        "note": "Droplet parameters are handed over in equivalent representations (float / integer arrays, lists, tuples, numpy scalars), unit grids as pde.UnitGrid; knife-edge cells (within 1e-9 R of the surface) skipped and counted; cylindrical droplets kept inside the z-range (py-pde does not wrap z when rendering).",
    },
    "C02": {
        "technique": "exhaustive enumeration of all binary images on small grids (itertools) + Hypothesis-generated structured masks, against an independent BFS connected-component oracle with periodic unwrapping and bipartite matching",
        "level": "Every binary image on Cartesian grids of 6, 10, 3x3, 3x4, 2x2x3 cells (thorough: up to 14, 4x4, 2x3x3) for every periodicity mask and on cylindrical grids up to 2x5 (thorough 4x4) for both periodic_z, plus generated masks (noise, wrapped boxes, persistent walks) on grids up to 40/16^2/8^3, handed over as masks or as float64 / float32 / boolean / int8 / integer images with numeric or automatic thresholds; volume, unwrapped centre of mass, sphere non-overlap and justification of omissions. Fixed sweep of images with 33-530 components (thorough 2060) incl. ring / bar / U motifs whose equal-volume spheres overlap. Far boxes (1e6-1e8 box lengths from the origin); on cylindrical grids (and one Cartesian case in eight) another image and then the same image again are analysed on the same grid object and the repeated result is judged.",
        "note": "Positions of winding components are not judged; lopsided on-axis objects and winding objects accompanied by on-axis blobs are swept over every z-position of periodic cylinders; no known finding is open, nothing is excluded.",
    },
    "C03": {
        "technique": _T + "; independent minimal-image geometry oracle, inside/outside equivalence, metamorphic roll equivariance, emulsion = clipped sum under permutation",
        "level": "Generated droplets of all five classes on every compatible grid family (generic and dyadic Cartesian 1-3 D with all periodicity masks, polar, spherical, cylindrical), widths None/0/positive, arbitrary level pairs, centres on cell centres/faces/outside the box; finiteness, range, midpoint equivalence, exact indicator, monotonic decay, roll equivariance, emulsion clause. Interfaces up to 2500 times thinner than the radius. In half of the roll cases the translated twin is a moved copy of the droplet, and the original is rendered again afterwards.",
        "note": "The droplet's own interface_distance defines the shape (for all three perturbed classes it is cross-checked against the documented series, 3-D via an independent real-spherical-harmonics oracle); each render is preceded by an unjudged render on a sibling grid (other periodicity / spacing / origin); knife-edge and ambiguous-image cells excluded and counted; exact 1-D dyadic cases judged without tolerance.",
    },
    "C04": {
        "technique": _T + "; harness-side recording proxy for scipy.optimize (initial/final cost, bounds), independent recomputation of the deviation over the fit region, post-condition oracle",
        "level": "Generated images (clean, noisy, rescaled, pure noise, smooth, self-render) x candidates of every class and mode count x all grid families and periodicities x four intensity options x optional tolerance / evaluation budget (non-converged fits); sharp candidates (width 0), perturbed candidates without modes, images as float64 / float32 / integer grey levels / boolean; cost non-increase, bounds, class, symmetry-fixed coordinates, periodic wrap, image immutability, fixed point. Candidates that cover no support point (sub-cell on a cell corner, beyond a wall), also periods away from the box. Constant images (dyadic and ordinary decimal values) and images with a nan / +-inf pixel outside the fitted region.",
        "note": "scipy least_squares trusted; fixed-point clause for candidates with an explicit width (incl. 0); sharp candidates with a cell centre within 1e-6 R of the interface are knife-edge cases (counted, not judged); independent deviation skipped on periodic cylindrical grids (py-pde rendering does not wrap z).",
    },
    "C05": {
        "technique": _T + "; render/locate+refine round trip with a recovery oracle (position, radius, width to 1e-4)",
        "level": "Generated resolvable diffuse droplets and well-separated emulsions on all grid families (Cartesian dims 1-3 with every periodicity mask, mild anisotropy, 3.5 decades of spacing; polar; spherical; cylindrical), five threshold rules, four intensity options; centres also within a fraction of a cell of a periodic boundary; single-precision images; in four cases of seven an unjudged analysis with other options precedes the judged one in the same process; one-to-one matching under the minimal-image metric. One case in ten is a finely resolved droplet (interface 3-12 cells wide). One options dict may serve a first (mirrored image) and then the judged analysis.",
        "note": "Bounded to radius 3-8 cells / width 1-2 cells as stated; gap >= 10 widths for emulsions; 3-D cases single droplet.",
    },
    "C06": {
        "technique": "exhaustive enumeration of lattice histories + Hypothesis-generated time courses; invariant over the history (multiset partition, input snapshot)",
        "level": "All 3-frame histories over every subset of a 4-site (thorough 5-site) 1-D lattice x methods x cut-offs x {no grid, periodic}; generated time courses of 0-6 (10) frames, any droplet class, dims 1-3, three placement modes, exact duplicates within a frame, all cut-offs (also relative to actual pair distances), time axes far from zero / tiny / through zero / integer nanosecond stamps beyond 2^53 (compared exactly); time stamps and frames in equivalent containers; partition invariant, gap-free/at-most-once under the stated premise, input unmodified. Crowd histories of 33-1300 droplets per frame (thorough 4400), random and as a fixed sweep over method x grid. One history in five without a grid lies 1e6-1e8 box sizes away from the origin.",
        "note": "Premise (no within-frame overlap) evaluated with an independent minimal-image metric and a 1e-9 margin.",
    },
    "C07": {
        "technique": "exhaustive lattice histories + Hypothesis-generated identity-preserving motion histories; differential against a re-implemented overlap relation and greedy closest-pair matching",
        "level": "Links extracted from returned tracks compared with the oracle relation (overlap: link implies overlap, no-overlap implies new track, one-to-one relation followed exactly; distance: cut-off respected, no end/start pair within the cut-off, greedy matching when distances are distinct; motion histories keep identities across periodic boundaries; one history in eight is tracked backwards in time). Crowd histories (33-1300 droplets per frame) on lattices displaced across the periodic boundaries, with vectorised oracles. Far-from-origin histories as in C06.",
        "note": "Cases violating the no-within-frame-overlap premise or with unidentifiable entries are skipped and counted (C06 judges those); the consecutive-overlap clause is judged for every pair of entries of a track; links that skip a frame and the links of histories with untracked droplets are judged too.",
    },
    "C08": {
        "technique": _T + "; write/read round trip through real HDF5 files, byte-level comparison",
        "level": "Generated collections of all four kinds and all five droplet classes, dims 1-3, None/0/positive widths, extreme finite values, empty collections/members, 0-13 members, int/float/negative times, one sixth heterogeneous (incl. the two 3-D perturbed classes that share a data layout); str / pathlib file names; tracks built by the constructor or by append; optional info dict; files overwritten in place; lengths, classes, record bytes, times and library equality compared after from_file; then the written object is edited in place, written again and read back. One case in sixty is a bulk collection: 33-1100 droplets in a member or 33-1100 members (thorough 4100).",
        "note": "h5py trusted; files live in a per-process scratch directory removed at exit; writing that raises is accepted only for heterogeneous collections.",
    },
    "C09": {
        "technique": "fuzzing with Hypothesis-generated structured requests (fields x grids x option combinations, renders, time courses, invalid requests), exception bucketing by (type, innermost library frame, message stem), finiteness oracle",
        "level": "Generated valid requests to locate_droplets / DropletTracker / get_phase_field / from_emulsion_time_course over all grid families from 1-cell to moderate shapes and every documented option combination (incl. least_squares_params, also one options dict shared by two requests with different droplet models); documented invalid requests must raise the documented type. Collect-then-shrink enumerates root causes in one run (8 buckets on the pinned tree, none on the repaired tree). Fixed sweep of large structures: one band winding 3-1600 times (thorough 6000) around a periodic axis, speckle images with hundreds of clusters.",
        "note": "'Valid' is read from the docstrings (finite field whose contrast is zero or at least 1e-9 of its magnitude, documented options, consistent intensity levels); atheris was not needed - the structured generator reaches every bucket in seconds.",
    },
    "C10": {
        "technique": _T + "; exhaustive sequences on a 1-D lattice with exact arithmetic; post-condition/invariant oracle",
        "level": "Generated emulsions (0-8 droplets, ties, radius 0, coincident centres, positions outside the box or far from the origin, constructed hidden overlaps behind tiny satellites) x min_distance of either sign x grids with every periodicity mask; all ordered sequences of <=3 (thorough 4) lattice droplets exhaustively; from_random on bounds and every grid family; all queries are asked of one emulsion object before and after the removal, and of an emulsion whose members were linked and re-ordered, and returned matrices are overwritten by the caller. Fixed sweep of polydisperse emulsions of 33-300 droplets (thorough 1030) with and without a periodic grid.",
        "note": "Independent minimal-image metric; tolerance 1e-9 x scale except on the exact lattice domain where equality cases are judged exactly.",
    },
    "C11": {
        "technique": _T + "; three-path differential (python / in-place / numba-compiled), commutativity, merge-tree associativity",
        "level": "Generated pairs and lists (2-8) of Spherical/Diffuse droplets in 1-3 D over 6 decades of radius, incl. zero radius and the sharp width 0; a data array linked to the operands before an in-place merge must still mirror them afterwards; operands of different provenance (copy, pickle round trip, emulsion member, droplet returned by refine_droplet) and in-place flags in equivalent true forms; all three code paths compared with the textbook formulas and each other; two random merge trees per case. The merge kernel (python and compiled) also writes into its first or second operand; a droplet is merged with itself.",
        "note": "Numerical tolerances 1e-12/1e-13/1e-10; the symbolic claim is not reachable by search.",
    },
    "C12": {
        "technique": _T + "; round trips, variant-agreement differential, r*S=d*V identity, finite-difference derivative",
        "level": "Generated radii/volumes over 30 decades x dims 1-3 x scalar/array layouts (float64, float32, small integers); droplets are also edited after a pickle round trip / copy and after a rejected negative radius; every conversion variant compared with textbook formulas and with each other; bounded search, no proof of the symbolic claim.",
        "note": "Trusts numpy/numba arithmetic; tolerances rtol 1e-13 (1e-7 for the numerical derivative).",
    },
    "C13": {
        "technique": _T + "; quadrature of the body bounded by interface_distance, exact differential geometry (planar curvature from r,r',r''; mean curvature from fundamental forms), re-implemented harmonic series, sphere limit",
        "level": "Generated perturbed droplets of all three classes, R0 over two decades, arbitrary centres, several simultaneously non-zero modes up to degree 4 (dense and sparse patterns that skip whole degrees) in four amplitude regimes; a droplet of the twin 3-D class is queried first; angles as scalars, 1-d arrays, 2-d tables (C / Fortran order, transposed views), azimuth omitted; shape functions against the documented series (2-D, axisymmetric, 3-D via independent real spherical harmonics); exact claims to 1e-6..1e-12, first-order claims as |error| R0 <= C s^2 over s = 1e-5..1e-2. Long amplitude vectors (2-D up to 400, 3-D up to 624, axisymmetric up to 60 entries) with sizeable high modes, random and as a fixed sweep. One case in five uses a length unit between 1e-7 and 1e7.",
        "note": "numpy/scipy quadrature primitives trusted; 2-D perimeter tolerance max(1e-6, twice the discretisation error of a 256-node rule); directions kept 0.2 rad off the poles; 3-D volume only for <= 8 non-zero modes; amplitudes of long vectors are scaled with the sup norm of the harmonics so that the radius function stays positive.",
    },
    "C14": {
        "technique": _T + "; differential between the online trackers and the offline analysis of the identical stored frames (direct drive and real py-pde solver runs)",
        "level": "Generated histories of 0-8 (12) fields on every grid family with irregular times (increasing, repeated, restarting, spacing shrinking by 1e7, through 0) and drawn analysis settings (plain values or numpy scalars), sources (None / index / callable), pre-filled time courses and files; solver runs of three PDEs; frame-by-frame byte comparison with EmulsionTimeCourse.from_storage and with the written file; LengthScaleTracker compared bit-wise with get_length_scale (NaN when it raises) and with its JSON file. The tracker is also obtained from EmulsionTimeCourse.tracker(); fields also stored in and analysed from a FileStorage; fixed sweep of long runs (130 / 1100 / 8400 frames; thorough 70000).",
        "note": "py-pde storage/solvers trusted; solver runs on 8x8-16x16 grids with the numpy backend.",
    },
    "C15": {
        "technique": "schedule exploration by harness-controlled delay injection (Hypothesis-drawn completion orders, exhaustive over 4 tasks in the thorough tier), differential against the serial run",
        "level": "Generated fields / storages x process counts {2,3,5,auto} x forced worker completion orders; locate_droplets(refine=True), refine_droplets (incl. user-supplied solver parameters, fresh copy per call; candidates as list / tuple / Emulsion / generator / iterator; storages with repeated or non-monotonic time stamps), EmulsionTimeCourse.from_storage and DropletTrackList.from_storage must return (or, for a candidate that cannot be fitted, fail in) the byte-identical, identically ordered result of the serial run; serial runs must be repeatable. Robust-loss solver options (soft_l1, huber, cauchy) among the user-supplied parameters. One box in four lies 1e4-1e7 box lengths away from the origin; after from_storage one result is continued by the caller and the storage analysed again.",
        "note": "Explores completion orders of whole tasks on forked process pools, not pre-emption inside a task; delays are never used as a verdict.",
    },
    "C16": {
        "technique": _T + "; Parseval identity, wave-number oracle, metamorphic relations (scale, roll, flip, transpose, stretch)",
        "level": "Generated fully periodic grids (dims 1-3, even/odd shapes, anisotropic spacings over 4 decades) x field kinds x transformation bundles; unsmoothed and smoothed variants with requested wave numbers and add_zero; results are overwritten by the caller and the call repeated; a sibling grid of the same shape is analysed first; the same values as an integer / boolean field. Fixed sweep of large grids (4290-70001 cells incl. 300x221 and 41^3; thorough 135200) for every clause. Near-constant fields (fluctuations 1e-4 ... 1e-8 of the mean) judged relative to their own largest value.",
        "note": "numpy.fft trusted; tolerances rtol 1e-9/atol 1e-13 (smoothed 1e-7/1e-12).",
    },
    "C17": {
        "technique": _T + "; metamorphic covariance relations per method, plane-wave oracle for the peak method, definition check for droplet counting",
        "level": "Generated periodic grids with spacings over 5 decades (and exactly 1), three methods; stretch/scale/shift relations (exact for moment and counting methods, within a Fourier bin for the peak method with an explicit covariant width); plane waves with integer wave vectors under the default smoothing; droplet counting also on binary images of elongated bars (judged through the locator's overlap filter); sibling-grid warm-up. Boxes with lower corner != 0, mixed periodicity for droplet counting, the documented method aliases and full_output, images of one connected winding band. Length units from 1e-6 to 1e8.",
        "note": "F10 (default smoothing width not covariant) is repaired; its signature is still discriminated so that a regression is reported; ambiguous peaks and NaN results on general fields are skipped and counted.",
    },
    "C18": {
        "technique": _T + "; differential against the documented binary image, Otsu by definition, exact affine metamorphic relation",
        "level": "Generated fields with exactly representable values on all grid families x five threshold rules x exact affine maps x minimal radii incl. exactly a found radius; byte-for-byte comparison with locate_droplets_in_mask(data > t_oracle), affine invariance, exact radius-filter sub-list, also with refinement; 1-D images of 4095...200003 cells next to powers of two; the same integer-valued image as an int64 field (bound between a fitted and a cluster radius); Otsu additionally on dense bimodal samples. Long 1-D images of any length up to 600000 cells (thorough 1.4 M) and dense Otsu samples of the same length. Affine maps with a background of 2^20 ... 2^24.",
        "note": "numpy.histogram trusted for binning; Otsu near-ties between different masks and mean-rule knife edges skipped and counted.",
    },
    "C19": {
        "technique": "exhaustive enumeration of the finite configuration cube (itertools) with a class/shape/layout oracle",
        "level": "All 10752 combinations (10912 with the parallel-refinement configurations) of grid family/periodicity (plus two grids with strongly anisotropic cells) x modes x width x refine x threshold rule x image (one / two / three droplets, empty, speck, droplet + speck), a third of them with numpy-scalar request arguments, are executed in both tiers (exhaustive: true); exact class, amplitude count, dimension, carried width, single dtype and formable tabular data. Plus 160 configurations with refinement spread over 2 / 3 worker processes and 9-26 droplets. And 72 configurations with a minimal radius between the two smallest cluster radii.",
        "note": "One fixed geometry per grid family; refinement quality is not judged here.",
    },
    "C20": {
        "technique": "model-based testing: Hypothesis-generated operation sequences (as data) interpreted against a list model, plus exhaustive sequences over a 7-operation alphabet",
        "level": "Three machines (Emulsion, EmulsionTimeCourse, DropletTrack/List), 1-50 (thorough 200) operations per sequence incl. ownership probes; model equality and independence of copies/slices after every step; arrays returned by queries are overwritten by the caller; nearly monodisperse histories; rejected batches (list / Emulsion / generator with a wrong droplet in the middle); in-place reorder operations; frames appended as Emulsion / list / tuple / generator; a linked data array must mirror its droplets after every later step; summary queries vs definitions and under member reversal; all sequences of length <= 4 (5) over a small alphabet. Emulsion histories 1e6-1e8 away from the origin; smoothed trajectories / radii against the Gaussian-average definition; first / last / items.",
        "note": "append(copy=False) aliasing unspecified and not judged; remove_overlapping inside a history is specified by the post-conditions that C10 states (separated survivors, original objects in order, every removal justified by an at-least-as-large droplet of the original emulsion), not by one particular survivor set.",
    },
}

_PENDING = "check not built yet in this revision of /verif (planned in DESIGN.md §4); no claim is made"
NOT_APPLICABLE = {f"C{i:02d}": _PENDING for i in range(1, 21)}  # only used for ids missing from CLAIMED (none at present)
