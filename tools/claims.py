"""Which properties are claimed, with what technique / level (source for MANIFEST.json)."""

NOTES = (
    "All checks: ./check <ID> --tier quick|thorough [--seed N] (VERIF_SEED / VERIF_TIER honoured). "
    "Exit 0 held / 1 VIOLATION line printed / 2 harness error (never a VIOLATION). Evidence is rewritten "
    "on every run. Known findings: known_findings.json (never written at run time)."
)

_T = "property-based testing (Hypothesis, generated specs vs. independent oracle)"

CLAIMED = {
    "C12": {
        "technique": _T + "; round trips, variant-agreement differential, r*S=d*V identity, finite-difference derivative",
        "level": "Generated radii/volumes over 30 decades x dims 1-3 x scalar/array layouts; every conversion variant compared with textbook formulas and with each other; bounded search, no proof of the symbolic claim.",
        "note": "Trusts numpy/numba arithmetic; tolerances rtol 1e-13 (1e-7 for the numerical derivative).",
    },
}

_PENDING = "check not built yet in this revision of /verif (planned in DESIGN.md §4); no claim is made"
NOT_APPLICABLE = {f"C{i:02d}": _PENDING for i in range(1, 21)}
