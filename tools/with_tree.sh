#!/bin/bash
# tools/with_tree.sh <git-ref> [<patch.diff> ...] -- <command...>
# Runs <command> (cwd /verif) against a scratch worktree of /repo at <git-ref> with the
# given patches applied (PYTHONPATH override; /repo itself is never touched).  The
# worktree lives under /tmp and is removed afterwards.  Evidence written by such runs
# is NOT evidence for /repo: VF_EVIDENCE_DIR points the engine at a scratch directory.
set -u
ref="$1"; shift
patches=()
while [ $# -gt 0 ] && [ "$1" != "--" ]; do patches+=("$1"); shift; done
shift
wt="$(mktemp -d /tmp/vf-tree-XXXXXX)"
rmdir "$wt"
git -C /repo worktree add -q --detach "$wt" "$ref" || exit 2
cleanup() { git -C /repo worktree remove --force "$wt" >/dev/null 2>&1; rm -rf "$wt"; }
trap cleanup EXIT
for p in "${patches[@]}"; do
    git -C "$wt" apply "$p" || { echo "patch $p does not apply" >&2; exit 2; }
done
cp /repo/droplets/_version.py "$wt/droplets/" 2>/dev/null
export VF_REPO_OVERRIDE="$wt"
export VF_EVIDENCE_DIR="$wt/.vf-evidence"
export VF_REPLAY_OUT="${VF_REPLAY_OUT:-$wt/.vf-replays}"
export PYTHONPATH="$wt${PYTHONPATH:+:$PYTHONPATH}"
cd /verif
"$@"
