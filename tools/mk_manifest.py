#!/usr/bin/env python3
"""Regenerates MANIFEST.json from the table below (kept in one place so that the manifest
is always valid and the not_applicable list is always current)."""

import json
import importlib.util
from pathlib import Path

ROOT = Path(__file__).resolve().parent.parent

# property id -> (technique, level text, level note)
CLAIMED = {}
spec = importlib.util.spec_from_file_location("claims", ROOT / "tools" / "claims.py")
mod = importlib.util.module_from_spec(spec)
spec.loader.exec_module(mod)
CLAIMED = mod.CLAIMED
NOT_YET = mod.NOT_APPLICABLE

props = [json.loads(l) for l in (ROOT / "properties.jsonl").read_text().splitlines() if l.strip()]
ids = [p["id"] for p in props]

checks = []
for pid in ids:
    if pid not in CLAIMED:
        continue
    c = CLAIMED[pid]
    checks.append(
        {
            "property_id": pid,
            "quick_cmd": f"./check {pid} --tier quick",
            "thorough_cmd": f"./check {pid} --tier thorough",
            "evidence_file": f"/verif/evidence/{pid}.json",
            "replay_cmd_template": f"./check {pid} --replay {{path}}",
            "engine": "vf",
            "level_claimed": {"category": "exploration", "text": c["level"], "design_ref": f"DESIGN.md §4 {pid}"},
            "level_note": c["note"],
            "technique": c["technique"],
        }
    )

manifest = {
    "version": 1,
    "setup_cmd": "./setup.sh",
    "hooks": {
        "guard": "PY_DROPLETS_VERIF",
        "enable": "no source hooks: checks import /repo/droplets from the working tree (editable install) and observe through public return values or harness-side monkey-patching (scipy.optimize proxy for C04, delay wrappers for C15); PY_DROPLETS_VERIF is reserved and currently unused",
        "baseline_off_cmd": "cd /repo && /venv/bin/python -m pytest -ra -q -p no:cacheprovider --timeout=900 --continue-on-collection-errors",
        "source_commits": [],
        "add_only": True,
    },
    "engines": [
        {
            "name": "vf",
            "path": "vf/engine.py",
            "serves_properties": [c["property_id"] for c in checks],
            "kind_free_text": "Hypothesis-driven generated-input search over JSON specs (forked shards, seeded by VERIF_SEED), exhaustive itertools sweeps of small finite sub-domains, independent oracles in vf/oracles.py, collect-then-shrink, replay files, known-findings file",
        }
    ],
    "checks": checks,
    "not_applicable": [{"property_id": pid, "reason": NOT_YET[pid]} for pid in ids if pid not in CLAIMED],
    "notes": mod.NOTES,
}
(ROOT / "MANIFEST.json").write_text(json.dumps(manifest, indent=1) + "\n")
try:
    import jsonschema

    jsonschema.validate(manifest, json.loads(Path("/root/.vp/MANIFEST.schema.json").read_text()))
    print("MANIFEST.json valid;", len(checks), "checks,", len(manifest["not_applicable"]), "not claimed")
except ImportError:
    print("MANIFEST.json written (jsonschema not importable)")
