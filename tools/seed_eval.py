#!/usr/bin/env python3
"""tools/seed_eval.py <ID> [<source dir>] [--name NAME] [--no-tests] [--checks C01,C02]

Confirms a seeded change (patch.diff + demo.py [+ notes.md]) in a scratch worktree of /repo HEAD
(never /repo itself): demo passes without the patch, fails with it, the pinned test suite still
passes with it; then runs the quick check(s) of /verif against the patched tree.  On success the
files are stored under /verif/seeded/<NAME>/ together with meta.json."""

import json
import os
import shutil
import subprocess
import sys
import tempfile
import time
from pathlib import Path

ROOT = Path(__file__).resolve().parent.parent
_argv = sys.argv[1:]
_skip = {i + 1 for i, a in enumerate(_argv) if a in ("--name", "--checks")}
args = [a for i, a in enumerate(_argv) if not a.startswith("--") and i not in _skip]
pid = args[0].upper()
src = Path(args[1]) if len(args) > 1 else Path(f"/tmp/seed-out/{pid}")
name = pid
checks = [pid]
for i, a in enumerate(sys.argv):
    if a == "--name":
        name = sys.argv[i + 1]
    if a == "--checks":
        checks = sys.argv[i + 1].split(",")
run_tests = "--no-tests" not in sys.argv
args = [a for a in args if a not in (name,)] if False else args

dest = ROOT / "seeded" / name
wt = tempfile.mkdtemp(prefix="vf-seed-", dir="/tmp")
os.rmdir(wt)
subprocess.run(["git", "-C", "/repo", "worktree", "add", "-q", "--detach", wt, "HEAD"], check=True)
head = subprocess.run(["git", "-C", "/repo", "rev-parse", "--short", "HEAD"], capture_output=True, text=True).stdout.strip()
meta = {"property": pid, "name": name, "repo_head": head, "ran": []}
try:
    v = Path("/repo/droplets/_version.py")
    if v.exists():
        shutil.copy(v, Path(wt) / "droplets" / "_version.py")
    shutil.copy(src / "demo.py", Path(wt) / "demo.py")
    env = {**os.environ, "PYTHONPATH": wt, "MPLBACKEND": "Agg"}

    def run(cmd, label, **kw):
        t0 = time.time()
        r = subprocess.run(cmd, cwd=kw.pop("cwd", wt), env=kw.pop("env", env), capture_output=True, text=True)
        meta["ran"].append({"what": label, "cmd": " ".join(cmd), "exit": r.returncode, "wall_s": round(time.time() - t0, 1), "tail": (r.stdout + r.stderr)[-400:]})
        return r

    r0 = run(["/venv/bin/python", "demo.py"], "demo on unchanged tree")
    ap = subprocess.run(["git", "-C", wt, "apply", str(src / "patch.diff")], capture_output=True, text=True)
    if ap.returncode != 0:
        print("patch does not apply:", ap.stderr)
        sys.exit(2)
    r1 = run(["/venv/bin/python", "demo.py"], "demo with the change")
    ok = r0.returncode == 0 and r1.returncode != 0
    print(f"demo unchanged: exit {r0.returncode}; demo with change: exit {r1.returncode}")
    if run_tests:
        rt = run(["/venv/bin/python", "-m", "pytest", "-q", "-p", "no:cacheprovider", "--timeout=900", "tests"], "test suite with the change")
        tail = [l for l in rt.stdout.splitlines() if "passed" in l or "failed" in l]
        print("tests:", tail[-1] if tail else rt.stdout[-200:])
        ok = ok and rt.returncode == 0
        meta["tests_pass_with_change"] = rt.returncode == 0
    meta["confirmed"] = ok
    cenv = {**os.environ, "VF_REPO_OVERRIDE": wt, "VF_EVIDENCE_DIR": wt + "/.vf-evidence", "VF_REPLAY_OUT": wt + "/.vf-replays", "PYTHONPATH": wt}
    meta["checks"] = {}
    for c in checks:
        rc = run([str(ROOT / "check"), c, "--tier", "quick"], f"./check {c} --tier quick against the changed tree", cwd=str(ROOT), env=cenv)
        sigs = [l.strip() for l in rc.stdout.splitlines() if l.strip().startswith("signature=")]
        verdict = "CAUGHT" if rc.returncode == 1 and "VIOLATION" in rc.stdout else ("HARNESS-ERROR" if rc.returncode == 2 else "MISSED")
        meta["checks"][c] = {"verdict": verdict, "signatures": [s[:200] for s in sigs[:3]]}
        print(f"check {c}: {verdict} {sigs[:2]}")
    if ok:
        dest.mkdir(parents=True, exist_ok=True)
        shutil.copy(src / "patch.diff", dest / "patch.diff")
        shutil.copy(src / "demo.py", dest / "demo.py")
        if (src / "notes.md").exists():
            shutil.copy(src / "notes.md", dest / "notes.md")
            meta["needs"] = "see notes.md"
        (dest / "meta.json").write_text(json.dumps(meta, indent=1) + "\n")
        print("stored in", dest)
    else:
        print("NOT confirmed; nothing stored")
finally:
    subprocess.run(["git", "-C", "/repo", "worktree", "remove", "--force", wt], capture_output=True)
    subprocess.run(["rm", "-rf", wt])
