#!/bin/bash
# Re-runs the whole sensitivity protocol and re-confirms every seeded change against /repo HEAD.
cd /verif
python3 tools/sensitivity.py --tests > /tmp/vf-sens.log 2>&1
for d in seeded/*/; do
  id=$(basename $d)
  pid=$(python3 -c "import json;print(json.load(open('$d/meta.json'))['property'])")
  checks=$(python3 -c "import json;print(','.join(json.load(open('$d/meta.json'))['checks'].keys()))")
  mkdir -p /tmp/vf-reseed/$id && cp $d/patch.diff $d/demo.py /tmp/vf-reseed/$id/ && cp $d/notes.md /tmp/vf-reseed/$id/ 2>/dev/null
  echo "== $id" >> /tmp/vf-reseed.log
  python3 tools/seed_eval.py $pid /tmp/vf-reseed/$id --name $id --checks $checks >> /tmp/vf-reseed.log 2>&1
done
rm -rf /tmp/vf-reseed
echo DONE >> /tmp/vf-reseed.log
