#!/bin/bash
# tools/eval_round.sh <round-dir> <ID> [<ID> ...]   e.g. tools/eval_round.sh /tmp/seed-out6 C07-r6a C07-r6b
# Confirms and stores seeded changes (seed_eval.py), 4 at a time; one log per change under /tmp/seed-eval-logs/
dir=$1; shift
mkdir -p /tmp/seed-eval-logs
printf '%s\n' "$@" | xargs -P 4 -I{} bash -c 'id={}; pid=${id%%-*}; python3 /verif/tools/seed_eval.py $pid '"$dir"'/$id --name $id > /tmp/seed-eval-logs/$id.log 2>&1; echo "$id: $(grep -E "^(demo|tests|check|NOT|patch)" /tmp/seed-eval-logs/$id.log | tr "\n" " " | cut -c1-400)"'
