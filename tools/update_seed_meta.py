#!/usr/bin/env python3
"""tools/update_seed_meta.py <round> <ID> [<ID> ...]

Re-runs the quick check(s) recorded in seeded/<ID>/meta.json against a scratch worktree of /repo HEAD with the patch applied
(tools/with_tree.sh) and updates meta.json: the verdict of the first attempt is kept as `first_result`, `checks` holds the
current verdict and signatures, `round` the seeding round."""
import json
import subprocess
import sys
from pathlib import Path

ROOT = Path(__file__).resolve().parent.parent
rnd = int(sys.argv[1])
for name in sys.argv[2:]:
    d = ROOT / "seeded" / name
    meta = json.loads((d / "meta.json").read_text())
    meta.setdefault("round", rnd)
    if "first_result" not in meta:
        meta["first_result"] = {c: v["verdict"] for c, v in meta["checks"].items()}
    for c in list(meta["checks"]):
        r = subprocess.run([str(ROOT / "tools/with_tree.sh"), "HEAD", str(d / "patch.diff"), "--", "./check", c, "--tier", "quick"], capture_output=True, text=True, cwd=ROOT)
        sigs = [l.strip()[:200] for l in r.stdout.splitlines() if l.strip().startswith("signature=")]
        more = [l.strip()[:300] for l in r.stdout.splitlines() if "further unlisted signatures" in l]
        verdict = "CAUGHT" if "VIOLATION" in r.stdout else ("HARNESS-ERROR" if "HARNESS" in r.stdout + r.stderr else "MISSED")
        meta["checks"][c] = {"verdict": verdict, "signatures": sigs[:3] + more[:1]}
        print(name, c, verdict, sigs[:1], flush=True)
    (d / "meta.json").write_text(json.dumps(meta, indent=1) + "\n")
