"""Independent reference implementations.  Nothing in here calls into ``droplets`` or
into the py-pde routines used by the code under test (grid geometry is re-derived from
``(origin, shape, spacing, periodic)``)."""

from __future__ import annotations

import math

import numpy as np

PI = math.pi


# --- sphere formulas (textbook) ---------------------------------------------------------
def sphere_volume(r, dim):
    if dim == 1:
        return 2.0 * r
    if dim == 2:
        return PI * r * r
    if dim == 3:
        return 4.0 / 3.0 * PI * r * r * r
    raise ValueError(dim)


def sphere_surface(r, dim):
    if dim == 1:
        return 2.0 + 0.0 * r
    if dim == 2:
        return 2.0 * PI * r
    if dim == 3:
        return 4.0 * PI * r * r
    raise ValueError(dim)


def sphere_radius_from_volume(v, dim):
    if dim == 1:
        return v / 2.0
    if dim == 2:
        return np.sqrt(v / PI)
    if dim == 3:
        return np.cbrt(3.0 * v / (4.0 * PI))
    raise ValueError(dim)


def sphere_radius_from_surface(s, dim):
    if dim == 2:
        return s / (2.0 * PI)
    if dim == 3:
        return np.sqrt(s / (4.0 * PI))
    raise ValueError(dim)


# --- Cartesian grid geometry -----------------------------------------------------------
class CartGeom:
    """Cell-centred Cartesian grid described by plain numbers."""

    def __init__(self, origin, shape, spacing, periodic):
        self.origin = np.asarray(origin, float)
        self.shape = tuple(int(s) for s in shape)
        self.dx = np.asarray(spacing, float)
        self.periodic = tuple(bool(p) for p in periodic)
        self.dim = len(self.shape)
        self.L = self.dx * np.asarray(self.shape)
        self.cell_volume = float(np.prod(self.dx))

    @property
    def bounds(self):
        return [(float(o), float(o + l)) for o, l in zip(self.origin, self.L)]

    def centres(self):
        """array of shape (*shape, dim) with the cell-centre coordinates"""
        axes = [self.origin[a] + (np.arange(self.shape[a]) + 0.5) * self.dx[a] for a in range(self.dim)]
        return np.stack(np.meshgrid(*axes, indexing="ij"), axis=-1)

    def min_image(self, diff):
        """minimal-image difference vector(s): d - L round(d/L) on periodic axes"""
        diff = np.array(diff, float, copy=True)
        for a in range(self.dim):
            if self.periodic[a]:
                diff[..., a] -= self.L[a] * np.round(diff[..., a] / self.L[a])
        return diff

    def dist(self, p, q):
        return float(np.linalg.norm(self.min_image(np.asarray(p, float) - np.asarray(q, float))))

    def dist_to(self, point):
        """distance of every cell centre to point (periodic metric)"""
        return np.linalg.norm(self.min_image(self.centres() - np.asarray(point, float)), axis=-1)

    def wrap(self, point):
        p = np.array(point, float, copy=True)
        for a in range(self.dim):
            if self.periodic[a]:
                p[a] = self.origin[a] + (p[a] - self.origin[a]) % self.L[a]
        return p


def make_cart_grid(geom: CartGeom):
    from pde import CartesianGrid, UnitGrid

    if all(float(o) == 0.0 for o in geom.origin) and all(float(d) == 1.0 for d in geom.dx):
        # an equivalent representation of the same grid: the dedicated unit-grid class (a subclass of CartesianGrid)
        return UnitGrid(list(geom.shape), periodic=list(geom.periodic))
    return CartesianGrid(geom.bounds, list(geom.shape), periodic=list(geom.periodic))


# --- connected components on a periodic lattice (union-free BFS with unwrapping) -------
def components(mask: np.ndarray, periodic):
    """Connected components (face connectivity + wrap links on periodic axes).

    Returns a list of dicts: cells = [(index tuple, image-offset tuple)], wind = [bool per axis].
    Offsets unwrap the component: the unwrapped cell index is idx + offset*shape."""
    shape = mask.shape
    nd = mask.ndim
    seen = {}
    comps = []
    for start in zip(*np.nonzero(mask)):
        start = tuple(int(i) for i in start)
        if start in seen:
            continue
        off0 = (0,) * nd
        seen[start] = off0
        stack = [start]
        cells = [(start, off0)]
        wind = [False] * nd
        while stack:
            c = stack.pop()
            oc = seen[c]
            for a in range(nd):
                for s in (-1, 1):
                    n = list(c)
                    o = list(oc)
                    n[a] += s
                    if n[a] < 0 or n[a] >= shape[a]:
                        if not periodic[a]:
                            continue
                        o[a] += -1 if n[a] < 0 else 1
                        n[a] %= shape[a]
                    n = tuple(n)
                    o = tuple(o)
                    if not mask[n]:
                        continue
                    if n in seen:
                        if seen[n] != o:
                            for b in range(nd):
                                if seen[n][b] != o[b]:
                                    wind[b] = True
                    else:
                        seen[n] = o
                        stack.append(n)
                        cells.append((n, o))
        comps.append({"cells": cells, "wind": wind})
    return comps


# --- Otsu by definition -----------------------------------------------------------------
def otsu_scores(data: np.ndarray, nbins: int = 256):
    """Between-class variance for every split of the nbins-bin histogram (by definition).

    Returns (bin centres, scores): scores[i] = w1*w2*(m1-m2)^2 when bins 0..i form class 1 and
    bins i+1.. class 2 (nan if a class is empty); the threshold of split i is centres[i]."""
    data = np.asarray(data, float).ravel()
    counts, edges = np.histogram(data, bins=nbins)
    counts = counts.astype(float)
    centres = (edges[1:] + edges[:-1]) / 2
    w1 = np.cumsum(counts)[:-1]
    w2 = counts.sum() - w1
    s1 = np.cumsum(counts * centres)[:-1]
    s2 = (counts * centres).sum() - s1
    with np.errstate(all="ignore"):
        scores = w1 * w2 * (s1 / w1 - s2 / w2) ** 2
    scores[(w1 == 0) | (w2 == 0)] = np.nan
    return centres, scores


# --- real spherical harmonics from the textbook formulas (no scipy.special) ----------------------------------------------------
def assoc_legendre_no_cs(l: int, m: int, x):
    """Associated Legendre function P_l^m(x) for 0 <= m <= l WITHOUT the Condon-Shortley phase, by the standard recurrences:
    P_m^m = (2m-1)!! (1-x^2)^(m/2),  P_(m+1)^m = x (2m+1) P_m^m,  (l-m) P_l^m = x (2l-1) P_(l-1)^m - (l+m-1) P_(l-2)^m."""
    x = np.asarray(x, float)
    pmm = np.ones_like(x)
    if m > 0:
        somx2 = np.sqrt(np.clip(1.0 - x * x, 0.0, None))
        fact = 1.0
        for _ in range(m):
            pmm = pmm * fact * somx2
            fact += 2.0
    if l == m:
        return pmm
    pmmp1 = x * (2 * m + 1) * pmm
    if l == m + 1:
        return pmmp1
    pll = pmmp1
    for ll in range(m + 2, l + 1):
        pll = (x * (2 * ll - 1) * pmmp1 - (ll + m - 1) * pmm) / (ll - m)
        pmm, pmmp1 = pmmp1, pll
    return pll


def real_sph_harm(l: int, m: int, theta, phi):
    """Real spherical harmonic Y_lm(theta = polar angle from z, phi = azimuth) in the usual orthonormal convention:
    sqrt(2) N P_l^|m|(cos theta) cos(m phi) for m > 0, N P_l(cos theta) for m = 0, sqrt(2) N P_l^|m| sin(|m| phi) for m < 0,
    N = sqrt((2l+1)/(4 pi) (l-|m|)!/(l+|m|)!), P without Condon-Shortley phase."""
    import math

    am = abs(m)
    N = math.sqrt((2 * l + 1) / (4 * math.pi) * math.factorial(l - am) / math.factorial(l + am))
    P = assoc_legendre_no_cs(l, am, np.cos(np.asarray(theta, float)))
    if m > 0:
        return math.sqrt(2) * N * P * np.cos(m * np.asarray(phi, float))
    if m < 0:
        return math.sqrt(2) * N * P * np.sin(am * np.asarray(phi, float))
    return N * P


def lm_from_k(k: int):
    """documented combined index k = l (l + 1) + m"""
    import math

    l = int(math.isqrt(k))
    return l, k - l * (l + 1)


def series_3d(R0, amps, theta, phi):
    """documented shape of PerturbedDroplet3D: R0 [1 + sum_k a_k Y_(l(k), m(k))], amplitudes[0] belonging to k = 1"""
    d = np.ones(np.broadcast(np.asarray(theta, float), np.asarray(phi, float)).shape)
    for i, a in enumerate(amps):
        if a != 0:
            l, m = lm_from_k(i + 1)
            d = d + a * real_sph_harm(l, m, theta, phi)
    return R0 * d


def series_axisym(R0, amps, theta):
    """documented shape of PerturbedDroplet3DAxisSym: R0 [1 + sum_l a_l Y_(l,0)(theta)], amplitudes[0] belonging to l = 1"""
    d = np.ones(np.shape(np.asarray(theta, float)))
    for i, a in enumerate(amps):
        if a != 0:
            d = d + a * real_sph_harm(i + 1, 0, theta, 0.0)
    return R0 * d
