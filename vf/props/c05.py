"""C05 - refined localisation recovers position, radius and interface width."""

from __future__ import annotations

import math

import numpy as np
from hypothesis import strategies as st

from vf import gen
from vf import oracles as O
from vf.engine import Ctx, Property

finite = gen.finite
THRESHOLDS = [0.5, "auto", "extrema", "mean", "otsu"]


@st.composite
def specs(draw, tier):
    fam = draw(st.sampled_from(["cart", "cart", "cart", "cart", "polar", "spherical", "cyl"]))
    base = gen.r6(10 ** draw(st.floats(-2, 1.5, **finite)))
    spec = {"family": fam, "threshold": draw(st.sampled_from(THRESHOLDS))}
    nd = 1
    if fam == "cart":
        corner3d = draw(st.integers(0, 9)) == 0  # a single droplet on the corner of a fully periodic 3-D box, off-centre
        dim = 3 if corner3d else draw(st.sampled_from([1, 2, 2, 3]))
        spacing = [gen.r6(base * draw(st.floats(0.7, 1.4, **finite))) for _ in range(dim)]
        dmax = max(spacing)
        rc = draw(st.floats(3, 8 if dim < 3 else 4.5, **finite))  # radius in cells of the largest spacing
        wc = draw(st.floats(1, 2 if dim < 3 else 1.5, **finite))
        nd = draw(st.sampled_from([1, 1, 2, 3, 4])) if dim < 3 else 1
        if dim < 3 and draw(st.integers(0, 9)) == 4:
            # a finely resolved droplet: radius and interface width span many cells
            wc = draw(st.floats(3, 12 if dim == 1 else 8, **finite))
            rc = wc * draw(st.floats(2.5, 5, **finite))
            nd = 1
            spec["fine"] = True
        if nd > 1:
            rc = min(rc, 5.0)
        # box large enough for the droplet(s), their tails and the 'mean' threshold region
        need = 2 * (rc + 4 * wc) + 4
        extra = draw(st.integers(0, 12 if dim < 3 else 4))
        shape = [int(math.ceil(need * dmax / s)) + extra + (int(math.ceil((nd - 1) * (2 * rc + 14 * wc) * dmax / s)) if a == 0 else 0) for a, s in enumerate(spacing)]
        periodic = [True] * dim if corner3d else [draw(st.booleans()) for _ in range(dim)]
        origin = [gen.r6(s * draw(st.floats(-20, 20, **finite))) for s in spacing]
        g = {"origin": origin, "shape": shape, "spacing": spacing, "periodic": periodic}
        spec["grid"] = g
        L = [n * s for n, s in zip(shape, spacing)]
        R, w = rc * dmax, wc * dmax
        drops = []
        dnorm = float(np.linalg.norm(spacing))
        for k in range(nd):
            Rk = R * draw(st.floats(0.75, 1.0, **finite)) if k else R
            Rk = max(Rk, 3 * dmax)
            wk = w * draw(st.floats(0.8, 1.0, **finite)) if k else w
            wk = max(wk, dmax)
            pos = []
            corner = nd == 1 and (corner3d or draw(st.integers(0, 4)) == 0)  # the droplet sits on the corner of all periodic axes, off-centre
            for a in range(dim):
                m = Rk + 4 * wk + dmax
                if periodic[a] and corner:
                    x = origin[a] + draw(st.sampled_from([0.0, 1.0])) * L[a] + draw(st.floats(-0.9, 0.9, **finite)) * Rk
                elif periodic[a]:
                    if draw(st.integers(0, 3)) == 0:  # centre within a fraction of a cell of the periodic boundary (either side)
                        x = origin[a] + draw(st.sampled_from([0.0, 1.0])) * L[a] + draw(st.sampled_from([-0.3, -0.1, -0.03, -0.005, 0.0, 0.005, 0.03, 0.1, 0.3])) * spacing[a]
                    else:
                        x = origin[a] + draw(st.floats(-0.5, 1.5, **finite)) * L[a]
                else:
                    x = origin[a] + m + draw(st.floats(0, 1, **finite)) * (L[a] - 2 * m)
                pos.append(float(x))
            if nd > 1:
                # place the droplets in slabs along axis 0 so that gaps are guaranteed
                slab = L[0] / nd
                pos[0] = origin[0] + (k + 0.5) * slab + draw(st.floats(-0.5, 0.5, **finite)) * max(0.0, slab - 2 * (Rk + 7 * wk + 3 * dnorm))
            drops.append({"position": [gen.r6(x) for x in pos], "radius": gen.r6(Rk), "interface_width": gen.r6(wk)})
        spec["droplets"] = drops
    elif fam in ("polar", "spherical"):
        rc = draw(st.floats(3, 8, **finite))
        wc = draw(st.floats(1, 2, **finite))
        if draw(st.integers(0, 5)) == 3:  # finely resolved
            wc = draw(st.floats(3, 12, **finite))
            rc = wc * draw(st.floats(2.5, 5, **finite))
            spec["fine"] = True
        n = int(math.ceil(rc + 5 * wc + 2)) + draw(st.integers(0, 10))
        spec["grid"] = {"n": n, "dr": base}
        if draw(st.integers(0, 3)) == 1:
            # an annular / shell grid: the innermost cells up to a fraction of the droplet radius are missing
            k_in = max(1, int(rc * draw(st.sampled_from([0.15, 0.3, 0.5, 0.65]))))
            spec["grid"]["k_in"] = k_in
            spec["grid"]["n"] = n - k_in if n - k_in >= int(math.ceil(rc + 5 * wc + 2)) - k_in else n
        dim = 2 if fam == "polar" else 3
        spec["droplets"] = [{"position": [0.0] * dim, "radius": gen.r6(rc * base), "interface_width": gen.r6(wc * base)}]
    else:
        dr = base
        dz = gen.r6(base * draw(st.floats(0.7, 1.4, **finite)))
        dmax = max(dr, dz)
        rc = draw(st.floats(3, 6, **finite))
        wc = draw(st.floats(1, 2, **finite))
        R, w = rc * dmax, wc * dmax
        nr = int(math.ceil((R + 5 * w) / dr)) + 2 + draw(st.integers(0, 4))
        nz = int(math.ceil(2 * (R + 5 * w) / dz)) + 4 + draw(st.integers(0, 8))
        g = {"nr": nr, "nz": nz, "dr": dr, "dz": dz, "z0": gen.r6(dz * draw(st.floats(-10, 10, **finite))), "periodic_z": draw(st.booleans())}
        spec["grid"] = g
        m = R + 4.5 * w
        z = g["z0"] + m + draw(st.floats(0, 1, **finite)) * (nz * dz - 2 * m)
        spec["droplets"] = [{"position": [0.0, 0.0, gen.r6(z)], "radius": gen.r6(R), "interface_width": gen.r6(w)}]
    opt = draw(st.sampled_from(["standard", "standard", "supplied", "supplied+fit", "none+fit"]))
    spec["intensity"] = opt
    if opt == "standard":
        spec["a"], spec["b"] = 1.0, 0.0
    else:
        spec["a"] = gen.r6(10 ** draw(st.floats(-1, 1, **finite)))
        spec["b"] = gen.r6(draw(st.floats(-3, 3, **finite)))
    spec["num_processes"] = 1
    # an earlier analysis in the same process with other options (a quick preview, other intensity options, another image)
    # must not influence the judged one
    spec["warmup"] = draw(st.sampled_from([None, None, None, "loose-tolerance", "tight-tolerance+params", "other-levels", "other-image", "same-options-dict", "same-options-dict"]))
    return spec


def build_grid(spec):
    fam, g = spec["family"], spec["grid"]
    if fam == "cart":
        return gen.build_cart(g)
    if fam in ("polar", "spherical"):
        from pde import PolarSymGrid, SphericalSymGrid

        cls = PolarSymGrid if fam == "polar" else SphericalSymGrid
        k_in = g.get("k_in", 0)
        if k_in:
            return None, cls((k_in * g["dr"], (k_in + g["n"]) * g["dr"]), g["n"])
        return None, cls(g["n"] * g["dr"], g["n"])
    return None, gen.build_cyl(g)


class C05(Property):
    id = "C05"
    rule = (
        "Hypothesis draws resolvable diffuse droplets (radius 3-8 cells of the largest spacing, 3-4.5 in 3-D; width 1-2 cells) on "
        "Cartesian grids (dims 1-3, anisotropy 0.7-1.4, spacings over 3.5 decades, every periodicity mask, centres anywhere incl. "
        "outside the box on periodic axes, away from non-periodic walls), centred on polar/spherical grids and on-axis on cylindrical "
        "grids (both periodic_z); emulsions of 2-4 droplets separated by > 10 widths (1-D/2-D); every threshold rule (a numeric "
        "threshold is mapped with the intensities); intensity options standard / affine with supplied levels / supplied + fitted / "
        "None + fitted; in four cases of seven an unjudged earlier analysis with other options (loose / tight tolerance with solver parameters, other intensity options, another image) precedes the judged call in the same process. locate_droplets(refine=True) must return one droplet per original with position error <= 1e-4 x max "
        "spacing (minimal-image metric) and relative radius and width errors <= 1e-4. Non-trivial = droplet straddles a periodic "
        "boundary, anisotropy >= 1.2, non-default threshold, non-standard intensities, >= 2 droplets or a symmetric grid; distinct = "
        "distinct spec hash."
    )
    assumptions = [
        "vmin=None, vmax=None without fitting is not claimed by the statement (biased by construction) and is not generated",
        "the multi-droplet gap (>= 10 widths) bounds the tail overlap by exp(-20) so that the clipped sum equals the single profiles to 1e-8",
        "boxes are at least 2(R + 4w) + 4 cells wide so that the low 'mean' threshold region does not touch its periodic image",
    ]

    def budget(self, tier):
        return {"examples": 3000 if tier == "quick" else 60000, "shards": 16}

    def strategy(self, tier):
        return specs(tier)

    def check(self, spec, ctx: Ctx):
        from pde import ScalarField

        from droplets import DiffuseDroplet, Emulsion
        from droplets.image_analysis import locate_droplets

        geom, grid = build_grid(spec)
        fam = spec["family"]
        drops = spec["droplets"]
        em = Emulsion([DiffuseDroplet(*gen.as_given(d["position"], d["radius"], d), d["interface_width"]) for d in drops])
        f = em.get_phasefield(grid)
        a, b = spec["a"], spec["b"]
        field = ScalarField(grid, a * np.asarray(f.data, float) + b)
        if spec.get("warmup") in (None, "other-levels") and (len(drops) + int(10 * a)) % 3 == 0:
            # the same image in single precision (still far more accurate than the 1e-4 that is asked for)
            field = ScalarField(grid, np.asarray(field.data, np.float32), dtype=np.float32)
            ctx.cls("image-float32")
        thr = spec["threshold"]
        if thr == 0.5:
            thr = a * 0.5 + b
        opt = spec["intensity"]
        rargs = {}
        if opt in ("supplied", "supplied+fit"):
            rargs.update(vmin=b, vmax=a + b)
        if opt == "none+fit":
            rargs.update(vmin=None, vmax=None)
        if opt.endswith("+fit"):
            rargs["adjust_values"] = True
        warm = spec.get("warmup")
        if warm:
            ctx.cls(f"warmup:{warm}")
            try:
                if warm == "loose-tolerance":
                    locate_droplets(field, threshold=thr, refine=True, refine_args={**rargs, "tolerance": 1e-2})
                elif warm == "tight-tolerance+params":
                    locate_droplets(field, threshold=thr, refine=True, refine_args={**rargs, "tolerance": 1e-12, "least_squares_params": {"max_nfev": 3}})
                elif warm == "same-options-dict":
                    # one options dict kept by the caller and handed to every analysis (as DropletTracker does for every frame): it
                    # first serves the analysis of the mirrored image, then - the very same object - the judged analysis
                    locate_droplets(ScalarField(grid, np.asarray(field.data)[tuple(slice(None, None, -1) for _ in range(grid.num_axes))].copy()), threshold=thr, refine=True, refine_args=rargs)
                elif warm == "other-levels":
                    locate_droplets(field, threshold=thr, refine=True, refine_args={"vmin": b - 0.3 * a, "vmax": b + 1.4 * a, "adjust_values": True})
                else:
                    locate_droplets(ScalarField(grid, 2.5 * np.asarray(f.data, float)[tuple(slice(None, None, -1) for _ in range(grid.num_axes))] - 1.0), threshold="auto", refine=True)
            except Exception:  # noqa: BLE001 - the preview is not judged (C09 judges robustness); only its after-effects are
                ctx.cls("warmup-raised")
        res = locate_droplets(field, threshold=thr, refine=True, refine_args=rargs)
        dxs = np.asarray(grid.discretization, float)
        dmax = float(dxs.max())
        aniso = float(dxs.max() / dxs.min())
        ctx.cls(fam, f"thr:{spec['threshold']}", f"intensity:{opt}", f"n{len(drops)}")
        if spec.get("fine"):
            ctx.cls("finely-resolved")
        if spec["grid"].get("k_in"):
            ctx.cls("inner-radius>0")
        straddle = False
        if fam == "cart":
            for d in drops:
                for ax in range(geom.dim):
                    if geom.periodic[ax]:
                        x = geom.wrap(d["position"])[ax]
                        if x - d["radius"] < geom.origin[ax] or x + d["radius"] > geom.origin[ax] + geom.L[ax]:
                            straddle = True
        if straddle:
            ctx.cls("straddles-periodic-boundary")
        ctx.nontrivial = straddle or aniso >= 1.2 or spec["threshold"] != 0.5 or opt != "standard" or len(drops) >= 2 or fam != "cart"
        if not ctx.require(len(res) == len(drops), f"count:{fam}:thr-{spec['threshold']}", f"{len(drops)} droplets rendered, {len(res)} located ({[str(x) for x in res][:3]})"):
            return
        used = set()
        for d in drops:
            c = np.asarray(d["position"], float)

            def dist_to(r):
                p = np.asarray(r.position, float)
                return float(np.linalg.norm(geom.min_image(p - c))) if fam == "cart" else float(np.linalg.norm(p - c))

            j = min((k for k in range(len(res)) if k not in used), key=lambda k: dist_to(res[k]))
            used.add(j)
            r = res[j]
            e_pos = dist_to(r) / dmax
            e_rad = abs(r.radius - d["radius"]) / d["radius"]
            w = r.interface_width
            e_w = abs(w - d["interface_width"]) / d["interface_width"] if w is not None else float("inf")
            ctx.require(type(r) is DiffuseDroplet, "class", f"{type(r).__name__}")
            tag = ""
            if max(e_pos, e_rad, e_w) > 1e-4 and spec.get("fine") and abs(a) < 0.5 and len(drops) == 1:
                # discriminator of the recorded finding F29 (finely resolved droplet in a low-contrast image: the solver's absolute
                # default tolerances end the fit early): does a tight tolerance repair this very request?
                try:
                    tight = locate_droplets(field, threshold=thr, refine=True, refine_args={**rargs, "tolerance": 1e-12})
                    if len(tight) == 1:
                        t0 = tight[0]
                        ok_t = dist_to(t0) / dmax <= 1e-4 and abs(t0.radius - d["radius"]) / d["radius"] <= 1e-4 and t0.interface_width is not None and abs(t0.interface_width - d["interface_width"]) / d["interface_width"] <= 1e-4
                        if ok_t:
                            tag = "+low-contrast-default-tolerance"
                except Exception:  # noqa: BLE001 - the discriminator is not judged
                    pass
            ctx.require(e_pos <= 1e-4, f"position:{fam}:{opt}{tag}", f"position error {e_pos} cells (found {r.position}, true {c})")
            ctx.require(e_rad <= 1e-4, f"radius:{fam}:{opt}{tag}", f"relative radius error {e_rad} (found {r.radius}, true {d['radius']})")
            ctx.require(e_w <= 1e-4, f"width:{fam}:{opt}{tag}", f"relative width error {e_w} (found {w}, true {d['interface_width']})")


PROP = C05()
