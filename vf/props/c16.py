"""C16 - the structure factor is a normalised, symmetry-invariant power spectrum."""

from __future__ import annotations

import numpy as np
from hypothesis import strategies as st

from vf import gen
from vf.engine import Ctx, Property

finite = gen.finite


@st.composite
def specs(draw, tier):
    dim = draw(st.integers(1, 3))
    cap = (9 if tier == "quick" else 24) if dim < 3 else (7 if tier == "quick" else 12)
    shape = [draw(st.integers(1, cap)) for _ in range(dim)]
    if int(np.prod(shape)) < 3:
        shape[0] = 3
    base = 10 ** draw(st.floats(-2, 2, **finite))
    spacing = [gen.r6(base * draw(st.floats(0.3, 3, **finite))) for _ in range(dim)]
    origin = [gen.r6(s * draw(st.floats(-20, 20, **finite))) for s in spacing]
    kind = draw(st.sampled_from(["noise", "noise", "wave", "spikes", "blob"] * 3 + ["near-constant"]))
    f = {"kind": kind, "seed": draw(st.integers(0, 2**31)), "amp": gen.r6(10 ** draw(st.floats(-3, 3, **finite))), "offset": gen.r6(draw(st.sampled_from([0.0, 0.0, 1.0, -1.0, 3.0])) * draw(st.floats(0, 3, **finite)))}
    f["dtype"] = draw(st.sampled_from(["float64"] * 6 + ["int", "bool"]))  # the same kind of image as an integer / boolean field
    if kind == "near-constant":  # fluctuations that are tiny compared with the mean value
        f["rel_fluct"] = draw(st.sampled_from([1e-4, 1e-6, 1e-7, 1e-8]))
        f["dtype"] = "float64"
    if kind == "wave":
        f["mode"] = [draw(st.integers(0, max(0, n // 2))) for n in shape]
        f["phase"] = gen.r6(draw(st.floats(0, 6.28, **finite)))
    t = {
        "scale": draw(st.sampled_from([-1.0, 2.0, -0.5, 1e3, 1e-3, 3.7])),
        "shift": [draw(st.integers(-n, n)) for n in shape],
        "flip": [draw(st.booleans()) for _ in range(dim)],
        "perm": draw(st.permutations(list(range(dim)))),
        "stretch": gen.r6(10 ** draw(st.floats(-2, 2, **finite))),
    }
    sm = draw(st.sampled_from([None, 0, "none", "rel", "rel", "auto"]))
    spec = {"shape": shape, "spacing": spacing, "origin": origin, "field": f, "transform": t, "smoothing": sm, "add_zero": draw(st.booleans())}
    if sm == "rel":
        spec["sigma_rel"] = draw(st.sampled_from([0.05, 0.2, 1.0]))  # in units of k_max
    if sm in ("rel", "auto"):
        wn = draw(st.lists(st.one_of(st.just(0.0), st.floats(0.001, 1.5, **finite).map(gen.r6)), min_size=1, max_size=6))
        if draw(st.booleans()):
            wn = sorted(wn)
        spec["wave_numbers_rel"] = wn if draw(st.integers(0, 3)) else None
    return spec


def make_grid(shape, spacing, origin):
    from pde import CartesianGrid

    return CartesianGrid([(o, o + n * d) for o, n, d in zip(origin, shape, spacing)], list(shape), periodic=True)


def make_data(shape, f):
    rng = np.random.default_rng(f["seed"])
    if f["kind"] == "near-constant":
        sign = -1.0 if f["seed"] % 2 else 1.0
        return sign * f["amp"] * (1.0 + f["rel_fluct"] * rng.uniform(-1, 1, shape))
    if f["kind"] == "noise":
        d = rng.uniform(-1, 1, shape)
    elif f["kind"] == "wave":
        idx = np.meshgrid(*[np.arange(n) for n in shape], indexing="ij")
        arg = sum(2 * np.pi * m * i / n for m, i, n in zip(f["mode"], idx, shape))
        d = np.cos(arg + f["phase"]) + 0.05 * rng.uniform(-1, 1, shape)
    elif f["kind"] == "spikes":
        d = (rng.random(shape) < 0.15).astype(float) * rng.uniform(0.5, 1, shape)
        d.flat[int(rng.integers(0, d.size))] = 1.0
    else:
        idx = np.stack(np.meshgrid(*[np.arange(n) for n in shape], indexing="ij"), -1)
        c = np.array([rng.uniform(0, n) for n in shape])
        d = 0.5 + 0.5 * np.tanh((0.3 * max(shape) - np.linalg.norm(idx - c, axis=-1)) / 1.0) + 0.01 * rng.uniform(-1, 1, shape)
    if f.get("stripes"):  # oblique stripes with a sawtooth profile: neither mirror symmetric nor symmetric under axis exchange
        idx = np.meshgrid(*[np.arange(n) for n in shape], indexing="ij")
        d = d + 0.5 * ((sum(m * i / n for m, i, n in zip(f["stripes"], idx, shape)) * 2.0) % 1.0)
    return f["amp"] * d + f["offset"] * f["amp"]


def k_oracle(shape, spacing):
    ks = [2 * np.pi * np.fft.fftfreq(n, d=dx) for n, dx in zip(shape, spacing)]
    grids = np.meshgrid(*ks, indexing="ij")
    return np.sqrt(sum(g**2 for g in grids))


def same(a, b, rtol=1e-9, atol=1e-13):
    a, b = np.asarray(a, float), np.asarray(b, float)
    if a.shape != b.shape or not np.array_equal(np.isfinite(a), np.isfinite(b)):
        return False
    fin = np.isfinite(a)
    if not np.array_equal(a[~fin], b[~fin], equal_nan=True):
        return False  # non-finite values only match identical non-finite values
    return bool(np.all(np.abs(a[fin] - b[fin]) <= atol + rtol * np.maximum(np.abs(a[fin]), np.abs(b[fin]))))


class C16(Property):
    id = "C16"
    rule = (
        "Hypothesis draws a fully periodic Cartesian grid (dim 1-3, 1-9 cells per axis quick / up to 24 thorough, even and odd, "
        "anisotropic spacings over 4 decades, arbitrary origin), a non-zero field (noise, plane waves, sparse spikes, smooth blob; "
        "amplitude 10^U(-3,3), offsets) and a transformation bundle (non-zero factor of either sign, integer shifts, axis flips, axis "
        "permutation, grid stretch); unsmoothed (None/0/'none') and smoothed (explicit width / 'auto', with requested wave numbers in or "
        "out of range, sorted or not) variants, with/without add_zero. Oracles: Parseval sum, non-negativity, wave numbers vs "
        "2 pi fftfreq, metamorphic invariances (scale, roll, flip = index reflection, transpose, stretch). Non-trivial = >= 2 non-zero "
        "Fourier modes and a non-identity shift/flip/permutation; distinct = distinct spec hash."
    )
    assumptions = [
        "numpy.fft is trusted for the transform itself (the oracle checks the normalisation, the wave numbers and the symmetries)",
        "tolerances: rtol 1e-9 / atol 1e-13 on S (Parseval atol 1e-10), wave numbers rtol 1e-13",
        "offset/amplitude ratio bounded by 9 so that cancellation in the FFT stays below the tolerance",
    ]

    def budget(self, tier):
        return {"examples": 8000 if tier == "quick" else 200000, "shards": 16}

    def strategy(self, tier):
        return specs(tier)

    # grids with many cells (mode counts beyond block sizes of any chunked evaluation): a fixed sweep
    LARGE = {"quick": [[66, 65], [130, 129], [300, 221], [41, 41, 41], [70001]], "thorough": [[66, 65], [130, 129], [300, 221], [41, 41, 41], [70001], [520, 260], [52, 51, 50]]}

    def exhaustive_jobs(self, tier):
        return [{"domain": "large-grids", "shape": shape, "variant": v} for shape in self.LARGE[tier] for v in range(2)]

    def expand(self, job):
        shape, v = job["shape"], job["variant"]
        dim = len(shape)
        spec = {
            "shape": shape,
            "spacing": [[0.5, 1.25, 0.8][a] for a in range(dim)] if v else [1.0] * dim,
            "origin": [[-3.0, 0.0, 7.5][a] for a in range(dim)],
            "field": {"kind": ["blob", "noise"][v], "seed": 17 + v + sum(shape), "amp": [1.0, 250.0][v], "offset": [0.0, 0.3][v], "dtype": "float64"},
            "transform": {"scale": [-2.0, 1e-3][v], "shift": [n // 3 + a for a, n in enumerate(shape)], "flip": [a % 2 == v % 2 for a in range(dim)] if dim > 1 else [True], "perm": list(range(dim))[::-1], "stretch": [3.0, 0.04][v]},
            "smoothing": ["auto", "rel"][v],
            "add_zero": bool(v),
            "wave_numbers_rel": [None, [0.0, 0.02, 0.11, 0.35, 0.9, 1.2]][v],
        }
        if v:
            spec["sigma_rel"] = 0.05
        if dim > 1:  # an anisotropic pattern on top, so that reflections and permutations are visible
            spec["field"]["stripes"] = [3, 1, 2][:dim]
        yield spec

    def check(self, spec, ctx: Ctx):
        from pde import ScalarField

        from droplets.image_analysis import get_structure_factor

        shape, spacing, origin = spec["shape"], spec["spacing"], spec["origin"]
        dim = len(shape)
        grid = make_grid(shape, spacing, origin)
        data = make_data(tuple(shape), spec["field"])
        rep = spec["field"].get("dtype", "float64")
        data_rep = None
        if rep == "int":  # small integers (no overflow in any integer arithmetic: |values| <= 1000, <= 2000 cells)
            scale_i = float(np.abs(data).max())
            data_rep = np.round(data / scale_i * 1000).astype(np.int64) if scale_i > 0 else data.astype(np.int64)
            data = data_rep.astype(float)
        elif rep == "bool":
            data_rep = data > float(np.median(data))
            data = data_rep.astype(float)
        if not np.any(data != 0):
            ctx.skip("zero-field")
            return
        t = spec["transform"]
        N = data.size
        ctx.cls(f"dim{dim}", f"field:{spec['field']['kind']}", f"smoothing:{spec['smoothing']}", "odd-axis" if any(n % 2 for n in shape) else "even-axes")
        if N > 4096:
            ctx.cls("cells>" + str(max(t for t in (4096, 16384, 65536, 131072) if N > t)))
        field = ScalarField(grid, data)
        snap = data.tobytes()
        # an earlier analysis on a sibling grid (same shape, other aspect ratio / spacing) must leave no trace
        try:
            sib = make_grid(shape, [spacing[0] * 3.0] + [x * 0.5 for x in spacing[1:]], origin)
            get_structure_factor(ScalarField(sib, data), smoothing=None)
            get_structure_factor(ScalarField(sib, data))
        except Exception:  # noqa: BLE001 - not judged
            pass
        if data_rep is not None:
            # the same values held as an integer / boolean field must give the same structure factor as the float field
            ctx.cls(f"field-dtype:{rep}")
            k_r, S_r = get_structure_factor(ScalarField(grid, data_rep, dtype=data_rep.dtype), smoothing=None)
            k_f, S_f = get_structure_factor(field, smoothing=None)
            ctx.require(np.shape(S_r) == np.shape(S_f) and same(S_r, S_f) and same(k_r, k_f), f"representation:{rep}", f"a {rep} field and the float field with the same values give different structure factors (sums {float(np.sum(S_r))} vs {float(np.sum(S_f))})")
        k_user, S_user = get_structure_factor(field, smoothing=None)
        ctx.require(field.data.tobytes() == snap, "field-modified", "get_structure_factor modified the field")
        if not ctx.require(k_user.shape == (N - 1,) and S_user.shape == (N - 1,), "shape", f"k {k_user.shape}, S {S_user.shape} for {N} cells"):
            return
        # the caller owns what is returned: converting the returned arrays in place (say, to other units) must not change what a
        # later call returns for the same field
        k, S = np.array(k_user, copy=True), np.array(S_user, copy=True)
        try:
            k_user *= 0.5
            S_user[...] = -1.0
        except ValueError:
            pass  # read-only results are fine
        k_again, S_again = get_structure_factor(field, smoothing=None)
        ctx.require(np.array_equal(k_again, k) and np.array_equal(S_again, S), "result-aliases-internal-state", "after modifying the returned arrays in place, the same call returns something else")
        if spec["field"]["kind"] == "near-constant":
            # only what is meaningful relative to the (tiny) values themselves: sign, the Parseval sum and the invariance under
            # scaling, a whole-cell translation and a reflection, all relative to the largest value (the transform itself limits the
            # accuracy to about 1e-15 / rel_fluct, i.e. 1e-7 at worst here)
            ctx.cls(f"rel-fluct:{spec['field']['rel_fluct']:g}")
            ctx.nontrivial = True
            ctx.require(bool(np.all(S >= 0)), "near-constant:negative", f"min S = {S.min()}")
            dev = data - data.mean()
            exp_sum = float(np.dot(dev.ravel(), dev.ravel()) / np.dot(data.ravel(), data.ravel()))
            ctx.require(abs(S.sum() - exp_sum) <= 1e-5 * exp_sum, "near-constant:parseval", f"sum S = {S.sum()} expected {exp_sum} (relative fluctuation {spec['field']['rel_fluct']})")
            smax = float(S.max())
            for label, arr in (("scale", t["scale"] * data), ("shift", np.roll(data, t["shift"], axis=tuple(range(dim)))), ("flip", np.flip(data))):
                S_t = get_structure_factor(ScalarField(grid, arr), smoothing=None)[1]
                ref = S if label != "flip" else None
                if label == "flip":
                    full = np.r_[np.nan, S].reshape(shape)
                    for a_ in range(dim):
                        full = np.roll(np.flip(full, axis=a_), 1, axis=a_)
                    ref = full.ravel()[1:]
                ctx.require(np.shape(S_t) == np.shape(ref) and bool(np.all(np.abs(S_t - ref) <= 1e-5 * smax)), f"near-constant:{label}-invariance", f"S changes under {label} by {float(np.abs(S_t - ref).max()) if np.shape(S_t) == np.shape(ref) else 'shape'} (largest value {smax})")
            return
        nmodes = int(np.sum(S > 1e-12))
        shift_nontrivial = any(s % n for s, n in zip(t["shift"], shape)) or any(t["flip"]) or list(t["perm"]) != list(range(dim))
        ctx.nontrivial = nmodes >= 2 and bool(shift_nontrivial)
        # --- unsmoothed ------------------------------------------------------------------
        ctx.require(bool(np.all(S >= 0)), "negative", f"min S = {S.min()}")
        ssq = float(np.dot(data.ravel(), data.ravel()))
        exp_sum = 1 - N * float(data.mean()) ** 2 / ssq
        ctx.require(abs(S.sum() - exp_sum) <= 1e-10, "parseval", f"sum S = {S.sum()} expected {exp_sum}")
        kor = k_oracle(shape, spacing)
        ctx.require(bool(np.all(np.abs(k - kor.flat[1:]) <= 1e-13 * np.abs(kor).max())), "wave-numbers", f"k differs from |2 pi fftfreq| by {np.abs(k - kor.flat[1:]).max()} (max k {kor.max()})")
        for sm_off in (0, "none"):
            k0, S0 = get_structure_factor(field, smoothing=sm_off)
            ctx.require(np.array_equal(k0, k) and np.array_equal(S0, S), "smoothing-off-variants", f"smoothing={sm_off!r} differs from smoothing=None")
        full = np.r_[np.nan, S].reshape(shape)

        def unsm(arr, g=grid):
            return get_structure_factor(ScalarField(g, arr), smoothing=None)

        k1, S1 = unsm(t["scale"] * data)
        ctx.require(same(S1, S) and np.array_equal(k1, k), "scale-invariance", f"S changes under f -> {t['scale']} f (max diff {np.nanmax(np.abs(S1 - S))})")
        rolled = np.roll(data, t["shift"], axis=tuple(range(dim)))
        k2, S2 = unsm(rolled)
        ctx.require(same(S2, S), "shift-invariance", f"S changes under a shift by {t['shift']} cells (max diff {np.nanmax(np.abs(S2 - S))})")
        flip_axes = [a for a in range(dim) if t["flip"][a]]
        if flip_axes:
            k3, S3 = unsm(np.flip(data, axis=flip_axes))
            exp = full
            for a in flip_axes:
                exp = np.roll(np.flip(exp, axis=a), 1, axis=a)
            ctx.require(same(np.r_[np.nan, S3].reshape(shape), exp), "flip-covariance", f"S(flip f) is not the index-reflected S(f) for axes {flip_axes}")
        perm = list(t["perm"])
        if perm != list(range(dim)):
            gp = make_grid([shape[a] for a in perm], [spacing[a] for a in perm], [origin[a] for a in perm])
            k4, S4 = unsm(np.transpose(data, perm), gp)
            ctx.require(same(np.r_[np.nan, S4].reshape([shape[a] for a in perm]), np.transpose(full, perm)), "permutation-covariance", f"S(transpose f) is not the transposed S(f) for perm {perm}")
            ctx.require(bool(np.allclose(np.r_[0, k4].reshape([shape[a] for a in perm]), np.transpose(kor, perm), rtol=1e-13, atol=0)), "permutation-wave-numbers", "wave numbers do not follow the axis permutation")
        s = t["stretch"]
        gs = make_grid(shape, [dx * s for dx in spacing], [o * s for o in origin])
        k5, S5 = unsm(data, gs)
        ctx.require(same(S5, S) and bool(np.allclose(k5 * s, k, rtol=1e-12, atol=0)), "stretch", f"stretching the grid by {s} does not divide k by {s} / changes S")
        ka, Sa = get_structure_factor(field, smoothing=None, add_zero=True)
        ctx.require(ka[0] == 0 and Sa[0] == 1 and np.array_equal(ka[1:], k) and np.array_equal(Sa[1:], S), "add-zero:unsmoothed", "add_zero does not prepend (0, 1)")
        # --- smoothed ----------------------------------------------------------------------
        sm = spec["smoothing"]
        if sm not in ("rel", "auto"):
            return
        kmax = float(k.max())
        sigma = "auto" if sm == "auto" else spec["sigma_rel"] * kmax
        wn = spec.get("wave_numbers_rel")
        req = None if wn is None else [w * kmax for w in wn]
        kw = {} if req is None else {"wave_numbers": req}
        ks, Ss = get_structure_factor(field, smoothing=sigma, **kw)
        if req is not None:
            ctx.cls("requested-wave-numbers")
            ctx.require(np.array_equal(ks, np.array(req)), "requested-wave-numbers", f"returned k {ks} != requested {req}")
        ctx.require(ks.shape == Ss.shape, "smoothed:shape", f"{ks.shape} vs {Ss.shape}")
        kz, Sz = get_structure_factor(field, smoothing=sigma, add_zero=True, **kw)
        ctx.require(kz[0] == 0 and Sz[0] == 1 and same(kz[1:], ks, 0, 0) and same(Sz[1:], Ss, 0, 0), "add-zero:smoothed", "add_zero does not prepend (0, 1) to the smoothed result")

        def smo(arr, g=grid, sig=sigma, kwargs=kw):
            return get_structure_factor(ScalarField(g, arr), smoothing=sig, **kwargs)

        tol = dict(rtol=1e-7, atol=1e-12)
        ctx.require(same(smo(t["scale"] * data)[1], Ss, **tol), "smoothed:scale-invariance", "smoothed S changes under scaling")
        ctx.require(same(smo(rolled)[1], Ss, **tol), "smoothed:shift-invariance", "smoothed S changes under a cell shift")
        if flip_axes:
            ctx.require(same(smo(np.flip(data, axis=flip_axes))[1], Ss, **tol), "smoothed:flip-invariance", "smoothed S changes under an axis flip")
        if perm != list(range(dim)):
            ctx.require(same(smo(np.transpose(data, perm), gp)[1], Ss, **tol), "smoothed:permutation-invariance", "smoothed S changes under an axis permutation")
        sig_s = sigma if sigma == "auto" else sigma / s
        kw_s = {} if req is None else {"wave_numbers": [w / s for w in req]}
        k6, S6 = smo(data, gs, sig_s, kw_s)
        ctx.require(same(S6, Ss, **tol) and bool(np.allclose(np.asarray(k6) * s, ks, rtol=1e-9, atol=0)), "smoothed:stretch", "smoothed S is not invariant under joint stretching of the grid, the smoothing width and the wave numbers")


PROP = C16()
