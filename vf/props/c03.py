"""C03 - a rendered phase field is a faithful, finite picture of the droplet."""

from __future__ import annotations

import itertools
import math

import numpy as np
from hypothesis import strategies as st

from vf import gen
from vf import oracles as O
from vf.engine import Ctx, Property

finite = gen.finite
# intensity levels: magnitudes below 1e-6 are snapped to 0 (a sub-normal level such as 5e-324 has no representable midpoint
# with 0, so "exceeds the midpoint" cannot be evaluated in double precision - an oracle limit, not a library matter)
_level = st.one_of(st.sampled_from([0.0, 1.0, -1.0, 0.5, 2.0]), st.floats(-100, 100, **finite).map(lambda x: 0.0 if abs(x) < 1e-6 else gen.r6(x)))


@st.composite
def dyadic_cart(draw, dims, tier):
    """Cartesian grid whose spacings / origin are dyadic rationals (exact translations by whole cells)"""
    dim = draw(st.sampled_from(dims))
    cap = {1: 24, 2: 14, 3: 8}[dim] if tier == "quick" else {1: 48, 2: 24, 3: 12}[dim]
    shape = [draw(st.integers(1, cap)) for _ in range(dim)]
    spacing = [draw(st.sampled_from([0.25, 0.5, 1.0, 1.0, 2.0, 0.375, 1.5])) for _ in range(dim)]
    origin = [draw(st.integers(-40, 40)) / 8 for _ in range(dim)]
    periodic = [draw(st.booleans()) for _ in range(dim)]
    return {"origin": origin, "shape": shape, "spacing": spacing, "periodic": periodic}


@st.composite
def specs(draw, tier):
    cls = draw(st.sampled_from(["SphericalDroplet", "DiffuseDroplet", "DiffuseDroplet", "PerturbedDroplet2D", "PerturbedDroplet3D", "PerturbedDroplet3DAxisSym"]))
    if cls in ("SphericalDroplet", "DiffuseDroplet"):
        fam = draw(st.sampled_from(["cart", "cart", "cart", "polar", "spherical", "cyl"]))
    elif cls == "PerturbedDroplet3DAxisSym":
        fam = draw(st.sampled_from(["cart", "cyl"]))
    else:
        fam = "cart"
    spec = {"cls": cls, "family": fam}
    if fam == "cart":
        dims = [1, 2, 3] if cls in ("SphericalDroplet", "DiffuseDroplet") else ([2] if cls == "PerturbedDroplet2D" else [3])
        if draw(st.booleans()):
            g = draw(dyadic_cart(dims, tier))
            spec["dyadic"] = True
        else:
            g = draw(gen.cart_grids(dims=tuple(dims), max_shape=(24, 14, 8) if tier == "quick" else (48, 24, 12)))
            spec["dyadic"] = False
        spec["grid"] = g
        geom = O.CartGeom(g["origin"], g["shape"], g["spacing"], g["periodic"])
        dim = geom.dim
        pos = []
        for a in range(dim):
            kind = draw(st.sampled_from(["in", "in", "cell-centre", "face", "out"]))
            if kind == "cell-centre":
                x = geom.origin[a] + (draw(st.integers(0, geom.shape[a] - 1)) + 0.5) * geom.dx[a]
            elif kind == "face":
                x = geom.origin[a] + draw(st.integers(0, geom.shape[a])) * geom.dx[a]
            elif kind == "out" and geom.periodic[a]:
                x = geom.origin[a] + draw(st.sampled_from([st.floats(-1, 2, **finite), st.floats(-4, 5, **finite)]).flatmap(lambda z: z)) * geom.L[a]
            else:
                x = geom.origin[a] + draw(st.floats(0, 1, **finite)) * geom.L[a]
            if spec["dyadic"] and kind not in ("cell-centre", "face"):
                x = round(x * 16) / 16
            pos.append(float(x))
        if cls == "PerturbedDroplet3DAxisSym":
            pos[0] = pos[1] = 0.0
        size = float(geom.L.max())
        spec["shift"] = [draw(st.integers(-2 * n, 2 * n)) if p else 0 for n, p in zip(geom.shape, geom.periodic)]
    elif fam in ("polar", "spherical"):
        spec["grid"] = {"n": draw(st.integers(1, 24)), "dr": gen.r6(10 ** draw(st.floats(-1, 1, **finite)))}
        dim = 2 if fam == "polar" else 3
        pos = [0.0] * dim
        size = spec["grid"]["n"] * spec["grid"]["dr"]
    else:
        g = draw(gen.cyl_grids(max_shape=(10, 16)))
        spec["grid"] = g
        dim = 3
        Lz = g["nz"] * g["dz"]
        pos = [0.0, 0.0, gen.r6(g["z0"] + draw(st.floats(0, 1, **finite)) * Lz)]
        size = max(g["nr"] * g["dr"], Lz)
    r = size * draw(st.sampled_from([0.05, 0.15, 0.3, 0.45, 0.7])) * draw(st.floats(0.6, 1.2, **finite))
    if spec.get("dyadic"):
        r = max(1, round(r * 16)) / 16
    d = {"position": pos, "radius": gen.r6(r)}
    if cls != "SphericalDroplet":
        # (also interfaces that are hundreds or thousands of times thinner than the radius: the profile is then evaluated far out
        # in its tails for nearly every cell)
        d["interface_width"] = draw(st.sampled_from([None, 0.0, 0.0, gen.r6(r * 0.1), gen.r6(r * 0.5), gen.r6(size * 0.02), gen.r6(r * 0.002), gen.r6(r * 0.0004)]))
    if cls.startswith("Perturbed"):
        n_amp = draw(st.integers(1, 8)) if cls == "PerturbedDroplet2D" else (draw(st.sampled_from([1, 3, 5, 8, 15])) if cls == "PerturbedDroplet3D" else draw(st.integers(1, 4)))
        raw = [draw(st.floats(-1, 1, **finite)) if draw(st.booleans()) else 0.0 for _ in range(n_amp)]
        tot = sum(abs(x) for x in raw) or 1.0
        target = draw(st.sampled_from([0.0, 0.1, 0.3, 0.8]))
        d["amplitudes"] = [gen.r6(x * target / tot) for x in raw]
    spec["droplet"] = d
    vmin, vmax = draw(_level), draw(_level)
    if vmin == vmax:
        vmax = vmin + 1.0
    if draw(st.booleans()):
        vmin, vmax = 0.0, 1.0
    spec["vmin"], spec["vmax"] = vmin, vmax
    # an emulsion of further droplets of the simple classes on the same grid
    others = []
    if fam == "cart" and draw(st.booleans()):
        for _ in range(draw(st.integers(1, 4))):
            far = draw(st.integers(0, 3)) == 0  # members several periods away from the box (periodic axes only)
            p = [float(geom.origin[a] + draw(st.floats(-3.5, 4.5, **finite) if far and geom.periodic[a] else st.floats(-0.5, 1.5, **finite)) * geom.L[a]) for a in range(dim)]
            others.append({"position": [gen.r6(x) for x in p], "radius": gen.r6(size * draw(st.floats(0.05, 0.4, **finite))), "interface_width": draw(st.sampled_from([None, 0.0, gen.r6(size * 0.03)]))})
    spec["others"] = others
    spec["perm_seed"] = draw(st.integers(0, 1000))
    return spec


def build_grid(spec):
    fam = spec["family"]
    g = spec["grid"]
    if fam == "cart":
        return gen.build_cart(g)
    if fam == "polar":
        from pde import PolarSymGrid

        return None, PolarSymGrid(g["n"] * g["dr"], g["n"])
    if fam == "spherical":
        from pde import SphericalSymGrid

        return None, SphericalSymGrid(g["n"] * g["dr"], g["n"])
    return None, gen.build_cyl(g)


def make_droplet(cls_name, d):
    import droplets.droplets as D

    cls = getattr(D, cls_name)
    pos, rad = gen.as_given(d["position"], d["radius"], d)
    if cls_name == "SphericalDroplet":
        return cls(pos, rad)
    if "amplitudes" in d:
        amps = np.array(d["amplitudes"], float) if len(d["amplitudes"]) % 2 else [float(a) for a in d["amplitudes"]]
        return cls(pos, rad, d["interface_width"], amps)
    return cls(pos, rad, d["interface_width"])


def geometry(spec, geom, pos):
    """oracle distances and directions of every cell centre: (dist, angles tuple, ambiguous mask)"""
    fam = spec["family"]
    g = spec["grid"]
    if fam == "cart":
        diff = geom.min_image(geom.centres() - np.asarray(pos, float))
        dist = np.linalg.norm(diff, axis=-1)
        amb = np.zeros(dist.shape, bool)
        for a in range(geom.dim):
            if geom.periodic[a]:
                amb |= np.abs(np.abs(diff[..., a]) - geom.L[a] / 2) <= 1e-9 * geom.L[a]
        if geom.dim == 2:
            ang = (np.arctan2(diff[..., 1], diff[..., 0]),)
        elif geom.dim == 3:
            with np.errstate(all="ignore"):
                theta = np.arccos(np.clip(diff[..., 2] / np.where(dist > 0, dist, 1), -1, 1))
            ang = (theta, np.arctan2(diff[..., 1], diff[..., 0]))
        else:
            ang = ()
        return dist, ang, amb
    if fam in ("polar", "spherical"):
        r = (np.arange(g["n"]) + 0.5) * g["dr"]
        return r, (), np.zeros(r.shape, bool)
    rc = (np.arange(g["nr"]) + 0.5) * g["dr"]
    zc = g["z0"] + (np.arange(g["nz"]) + 0.5) * g["dz"]
    dz = zc[None, :] - pos[2]
    dist = np.hypot(rc[:, None], dz)
    theta = np.arccos(np.clip(dz / dist, -1, 1))
    return dist, (theta, np.zeros_like(theta)), np.zeros(dist.shape, bool)


class C03(Property):
    id = "C03"
    rule = (
        "Hypothesis draws a droplet class and a compatible grid: Spherical/Diffuse on Cartesian 1-3 D grids (generic or dyadic spacing/"
        "origin, every periodicity mask, centres inside, on cell centres, on cell faces, outside the box on periodic axes) and centred "
        "/ on-axis on polar, spherical and cylindrical grids; PerturbedDroplet2D on 2-D Cartesian, PerturbedDroplet3D and the "
        "axisymmetric class on 3-D Cartesian, the axisymmetric class on cylindrical grids; widths None/0/positive, amplitude sums "
        "0-0.8, vmin/vmax arbitrary distinct reals in either order, plus 0-4 further droplets for the emulsion clause and integer cell "
        "shifts for the roll clause. Oracle: independent minimal-image distances and directions; the droplet's own interface_distance "
        "as the shape; finiteness, range, midpoint <=> inside, exact indicator for sharp droplets, monotonic decay for spherical "
        "profiles, roll equivariance, emulsion = clipped sum for a random permutation. Non-trivial = the interface cuts the grid and "
        "(periodic wrap used, centre on a cell centre, non-zero amplitudes, width None/0, or non-default levels); distinct = distinct "
        "spec hash."
    )
    assumptions = [
        "knife-edge cells (ideal value within 1e-9 x scale of the midpoint, or |d - rho| <= 1e-9 rho) are excluded from the inside/outside equivalence and counted",
        "direction-dependent shapes: cells with a non-unique minimal image (|delta| = L/2) and the cell that coincides with the centre are judged for finiteness and range only",
        "cylindrical grids: py-pde 0.58 does not wrap z when rendering, the oracle distance on these grids is not wrapped either",
        "tolerances 1e-12 x level scale (range, indicator, monotonicity, emulsion sum), 1e-9 x level scale for roll equivariance on generic grids",
    ]

    def budget(self, tier):
        return {"examples": 8000 if tier == "quick" else 160000, "shards": 16}

    def strategy(self, tier):
        return specs(tier)

    def check(self, spec, ctx: Ctx):
        from droplets import DiffuseDroplet, Emulsion

        geom, grid = build_grid(spec)
        cls_name = spec["cls"]
        d = make_droplet(cls_name, spec["droplet"])
        vmin, vmax = spec["vmin"], spec["vmax"]
        scale = max(abs(vmin), abs(vmax), abs(vmax - vmin))
        fam = spec["family"]
        if fam == "cart":
            # a preceding render of the same droplet on a sibling grid (same shape, but other periodicity, spacing or origin) must
            # leave no trace: anything remembered between calls has to be keyed by everything the result depends on
            g0 = spec["grid"]
            pick = (len(spec["droplet"]["position"]) + int(sum(g0["shape"]))) % 3
            sib = dict(g0)
            if pick == 0:
                sib["periodic"] = [not p for p in g0["periodic"]]
            elif pick == 1:
                sib["spacing"] = [2.0 * x for x in g0["spacing"]]
            else:
                sib["origin"] = [o + 0.5 * n * x for o, n, x in zip(g0["origin"], g0["shape"], g0["spacing"])]
            try:
                d.copy().get_phase_field(gen.build_cart(sib)[1], vmin=vmin, vmax=vmax)
            except Exception:  # noqa: BLE001 - the sibling render is not judged
                pass
        field = d.get_phase_field(grid, vmin=vmin, vmax=vmax)
        data = np.asarray(field.data, float)
        ctx.cls(cls_name, fam, "width:" + ("None" if spec["droplet"].get("interface_width", "sharp") is None else ("0" if spec["droplet"].get("interface_width", 0.0) == 0 else "positive")))
        if not ctx.require(data.shape == tuple(grid.shape), "shape", f"field shape {data.shape} on grid {grid.shape}"):
            return
        ctx.require(bool(np.all(np.isfinite(data))), f"not-finite:{cls_name}", f"{int(np.sum(~np.isfinite(data)))} non-finite cells")
        lo, hi = min(vmin, vmax), max(vmin, vmax)
        fin = np.isfinite(data)
        ctx.require(bool(np.all(data[fin] >= lo - 1e-12 * scale) and np.all(data[fin] <= hi + 1e-12 * scale)), "out-of-range", f"values in [{data[fin].min() if fin.any() else None}, {data[fin].max() if fin.any() else None}] outside [{lo}, {hi}]")
        dist, ang, amb = geometry(spec, geom, spec["droplet"]["position"])
        perturbed = cls_name.startswith("Perturbed")
        if perturbed:
            with np.errstate(all="ignore"):
                if cls_name == "PerturbedDroplet2D":
                    rho = d.interface_distance(ang[0].ravel()).reshape(dist.shape)
                    # the 2-D shape function has a closed documented form: R0 (1 + sum_n a_(2n-1) sin(n phi) + a_(2n) cos(n phi));
                    # the rendered picture must follow that shape, so the droplet's own shape function is cross-checked against it
                    amps2 = [float(a) for a in spec["droplet"]["amplitudes"]]
                    ser = np.ones(dist.shape)
                    for i2, a2 in enumerate(amps2):
                        n2 = i2 // 2 + 1
                        ser = ser + a2 * (np.sin(n2 * ang[0]) if i2 % 2 == 0 else np.cos(n2 * ang[0]))
                    ser = float(spec["droplet"]["radius"]) * ser
                    okser = np.isfinite(rho) & np.isfinite(ser)
                    ctx.require(bool(np.all(np.abs(rho[okser] - ser[okser]) <= 1e-12 * float(spec["droplet"]["radius"]) * (1 + sum(abs(a) for a in amps2)))), "shape-function-differs-from-series:PerturbedDroplet2D", f"interface_distance deviates from the documented series by {float(np.max(np.abs(rho[okser] - ser[okser]))) if okser.any() else None}")
                    rho = np.where(okser, ser, rho)
                elif cls_name == "PerturbedDroplet3D":
                    rho = d.interface_distance(ang[0].ravel(), ang[1].ravel()).reshape(dist.shape)
                    ser = O.series_3d(float(spec["droplet"]["radius"]), [float(a) for a in spec["droplet"]["amplitudes"]], ang[0], ang[1])
                else:
                    rho = d.interface_distance(ang[0].ravel()).reshape(dist.shape)
                    ser = O.series_axisym(float(spec["droplet"]["radius"]), [float(a) for a in spec["droplet"]["amplitudes"]], ang[0])
                if cls_name != "PerturbedDroplet2D":
                    # the rendered picture must follow the documented series of real spherical harmonics (independent implementation)
                    okser = np.isfinite(rho) & np.isfinite(ser)
                    tol_ser = 1e-11 * float(spec["droplet"]["radius"]) * (1 + sum(abs(float(a)) for a in spec["droplet"]["amplitudes"]))
                    ctx.require(bool(np.all(np.abs(rho[okser] - ser[okser]) <= tol_ser)), f"shape-function-differs-from-series:{cls_name}", f"interface_distance deviates from the documented harmonic series by {float(np.max(np.abs(rho[okser] - ser[okser]))) if okser.any() else None}")
                    rho = np.where(okser, ser, rho)
            centre_cell = dist <= 1e-12 * max(1.0, float(np.abs(spec["droplet"]["position"]).max()))
        else:
            rho = np.full(dist.shape, float(spec["droplet"]["radius"]))
            centre_cell = np.zeros(dist.shape, bool)
            amb = np.zeros(dist.shape, bool)
        w = spec["droplet"].get("interface_width", 0.0) if cls_name != "SphericalDroplet" else 0.0
        if w is None:
            w = float(grid.typical_discretization)
        mid = (vmin + vmax) / 2
        with np.errstate(all="ignore"):
            prof = np.where(dist < rho, 1.0, 0.0) if w == 0 else 0.5 + 0.5 * np.tanh((rho - dist) / w)
        ideal = vmin + (vmax - vmin) * prof
        knife = (np.abs(ideal - mid) <= 1e-9 * scale) | (np.abs(dist - rho) <= 1e-9 * np.abs(rho)) | amb | centre_cell | ~np.isfinite(rho)
        if fam == "cart" and spec.get("dyadic") and geom.dim == 1 and not perturbed and w == 0:
            # all arithmetic is exact here: a cell exactly on the interface (d == R) is judged (it is outside)
            knife = np.zeros(dist.shape, bool)
            ctx.cls("exact-1d")
        inside = dist < rho
        cuts = bool(inside.any() and (~inside).any())
        judged = ~knife & fin
        above = data > mid if vmax > vmin else data < mid
        bad = judged & (above != inside)
        ctx.require(not bad.any(), f"midpoint-vs-inside:{cls_name}:{fam}", f"{int(bad.sum())} cell(s) on the wrong side of the midpoint (first: distance {dist[bad][0] if bad.any() else None}, interface {rho[bad][0] if bad.any() else None}, value {data[bad][0] if bad.any() else None}, mid {mid})")
        # the cell coinciding with the centre lies inside any droplet of positive radius
        if centre_cell.any() and spec["droplet"]["radius"] > 0 and np.all(np.isfinite(data[centre_cell])):
            c_above = data[centre_cell] > mid if vmax > vmin else data[centre_cell] < mid
            ctx.require(bool(np.all(c_above)), "centre-cell-outside", "the cell whose centre coincides with the droplet centre is rendered as outside")
        if w == 0:
            exp = np.where(inside, vmax, vmin)
            okc = ~knife | centre_cell
            ctx.require(bool(np.all(np.abs(data - exp)[judged] <= 1e-12 * scale)), f"sharp-not-indicator:{cls_name}", f"sharp droplet: max deviation from the indicator {np.abs(data - exp)[judged].max() if judged.any() else 0}")
            vals = np.unique(data[fin])
            ctx.require(all(min(abs(v - vmin), abs(v - vmax)) <= 1e-12 * scale for v in vals), f"sharp-extra-values:{cls_name}", f"sharp droplet renders values {vals[:5]} besides vmin/vmax")
            del okc
        elif not perturbed:
            order = np.argsort(dist.ravel(), kind="stable")
            v = data.ravel()[order] * (1 if vmax > vmin else -1)
            ctx.require(bool(np.all(np.diff(v) <= 1e-12 * scale)), "not-monotonic", "value increases with the distance from the centre")
            dev = np.abs(data - ideal)[fin]
            ctx.require(bool(np.all(dev <= 1e-9 * scale)), "profile", f"profile deviates from vmin + (vmax - vmin)(1 + tanh((R - d)/w))/2 by {dev.max() if dev.size else float('nan')}")
        nontriv_extra = False
        # --- roll equivariance on periodic Cartesian axes -------------------------------------
        if fam == "cart" and any(spec["shift"]):
            shift = spec["shift"]
            pos2 = np.array(spec["droplet"]["position"], float) + np.array(shift) * geom.dx
            if cls_name == "PerturbedDroplet3DAxisSym" and (shift[0] or shift[1]):
                pass
            else:
                if sum(abs(int(k)) for k in shift) % 2:
                    # the translated droplet as a user obtains it: a copy of the original that is moved; the original must stay
                    # where it was (its render is repeated below)
                    d2 = d.copy()
                    d2.position = pos2
                    again = np.asarray(d.get_phase_field(grid, vmin=vmin, vmax=vmax).data, float)
                    ctx.require(np.array_equal(again, data, equal_nan=True), f"copy-not-independent:{cls_name}", "moving a copy of the droplet changed the render of the original")
                    ctx.cls("translated-copy")
                else:
                    d2 = make_droplet(cls_name, {**spec["droplet"], "position": pos2.tolist()})
                data2 = np.asarray(d2.get_phase_field(grid, vmin=vmin, vmax=vmax).data, float)
                rolled = np.roll(data, shift, axis=tuple(range(geom.dim)))
                kn = np.roll(knife | ~fin, shift, axis=tuple(range(geom.dim)))
                tol = (1e-12 if spec.get("dyadic") else 1e-9) * scale
                if perturbed:
                    tol = max(tol, 1e-9 * scale)
                    # directions of cells at the wrap seam differ between the two renders -> exclude ambiguous cells
                    dist2, ang2, amb2 = geometry(spec, geom, pos2)
                    kn = kn | amb2 | (dist2 <= 1e-12)
                if w == 0:
                    dist2 = geom.dist_to(pos2)
                    rho2 = np.roll(rho, shift, axis=tuple(range(geom.dim)))
                    kn = kn | (np.abs(dist2 - rho2) <= 1e-9 * np.abs(rho2))
                diffm = np.abs(data2 - rolled)
                diffm[kn | ~np.isfinite(diffm)] = 0
                ctx.require(bool(np.all(diffm <= tol)), f"roll-equivariance:{cls_name}", f"translating the centre by {shift} cells differs from np.roll by {diffm.max()} (tolerance {tol})")
                nontriv_extra = True
                ctx.cls("roll-checked")
        # --- emulsion clause -----------------------------------------------------------------------
        if fam == "cart":
            members = [d] + [DiffuseDroplet(np.array(o["position"], float), o["radius"], o["interface_width"]) for o in spec["others"]]
            if cls_name == "SphericalDroplet" or True:
                em = Emulsion(members)
                tot = np.asarray(em.get_phasefield(grid).data, float)
                parts = [np.asarray(m.get_phase_field(grid).data, float) for m in members]
                exp = np.clip(np.sum(parts, axis=0), 0, 1)
                okf = np.isfinite(exp)
                ctx.require(bool(np.all(np.abs(tot - exp)[okf] <= 1e-12)), "emulsion:not-clipped-sum", f"emulsion field differs from clip(sum of member fields) by {np.abs(tot - exp)[okf].max() if okf.any() else 0}")
                rng = np.random.default_rng(spec["perm_seed"])
                perm = rng.permutation(len(members))
                tot2 = np.asarray(Emulsion([members[i] for i in perm]).get_phasefield(grid).data, float)
                ctx.require(bool(np.all(np.abs(tot2 - tot)[okf] <= 1e-12)), "emulsion:order-dependent", "emulsion field depends on the droplet order")
                if len(members) > 1:
                    ctx.cls("emulsion>1")
            empty = Emulsion().get_phasefield(grid)
            ctx.require(bool(np.all(empty.data == 0)), "emulsion:empty-not-zero", "field of an empty emulsion is not zero")
        wrap_used = fam == "cart" and bool(np.any(np.abs(geom.dist_to(spec["droplet"]["position"]) - np.linalg.norm(geom.centres() - np.array(spec["droplet"]["position"]), axis=-1)) > 1e-9 * geom.L.max()))
        if wrap_used:
            ctx.cls("periodic-wrap-used")
        nz_amp = any(a != 0 for a in spec["droplet"].get("amplitudes", []))
        ctx.nontrivial = cuts and (wrap_used or nontriv_extra or nz_amp or spec["droplet"].get("interface_width", 0.0) in (None, 0.0) or (vmin, vmax) != (0.0, 1.0) or bool(centre_cell.any()))


PROP = C03()
