"""C04 - refinement never worsens the fit and respects bounds, symmetry and the box."""

from __future__ import annotations

import math

import numpy as np
from hypothesis import strategies as st

from vf import gen
from vf import oracles as O
from vf.engine import Ctx, Property

finite = gen.finite


@st.composite
def specs(draw, tier):
    fam = draw(st.sampled_from(["cart", "cart", "cart", "polar", "spherical", "cyl"]))
    spec = {"family": fam}
    if fam == "cart":
        dim = draw(st.sampled_from([1, 2, 2, 3]))
        cap = {1: 32, 2: 18, 3: 9}[dim] if tier == "quick" else {1: 48, 2: 24, 3: 12}[dim]
        g = draw(gen.cart_grids(dims=(dim,), max_shape=(cap, cap, cap), min_shape=6, aniso=(0.6, 1.6)))
        spec["grid"] = g
        L = [n * d for n, d in zip(g["shape"], g["spacing"])]
        dmax = max(g["spacing"])
        centre = [g["origin"][a] + draw(st.floats(0.15, 0.85, **finite)) * L[a] if not g["periodic"][a] else g["origin"][a] + draw(st.floats(-0.5, 1.5, **finite)) * L[a] for a in range(dim)]
        free = list(range(dim))
        size = min(L)
    elif fam in ("polar", "spherical"):
        n = draw(st.integers(8, 24))
        dr = gen.r6(10 ** draw(st.floats(-1, 1, **finite)))
        spec["grid"] = {"n": n, "dr": dr}
        dim = 2 if fam == "polar" else 3
        centre = [0.0] * dim
        free = []
        dmax = dr
        size = n * dr
    else:
        g = draw(gen.cyl_grids(max_shape=(10, 18)))
        g["nr"] = max(g["nr"], 5)
        g["nz"] = max(g["nz"], 8)
        spec["grid"] = g
        dim = 3
        Lz = g["nz"] * g["dz"]
        centre = [0.0, 0.0, g["z0"] + draw(st.floats(0.2, 0.8, **finite)) * Lz]
        free = [2]
        dmax = max(g["dr"], g["dz"])
        size = min(g["nr"] * g["dr"], Lz)
    R = min(draw(st.floats(1.5, 4, **finite)) * dmax, 0.45 * size)
    w = draw(st.floats(0.5, 2, **finite)) * dmax
    spec["truth"] = {"position": [gen.r6(x) for x in centre], "radius": gen.r6(R), "interface_width": gen.r6(w)}
    kind = draw(st.sampled_from(["clean", "clean", "noisy", "rescaled", "noise", "smooth", "self"] * 3 + ["constant", "constant"]))
    levels = [0.0, 1.0]
    if kind in ("rescaled",) or draw(st.integers(0, 3)) == 0:
        lo = gen.r6(draw(st.floats(-2, 2, **finite)))
        levels = [lo, gen.r6(lo + draw(st.floats(0.3, 3, **finite)))]
    spec["image"] = {"kind": kind, "seed": draw(st.integers(0, 2**31)), "sigma": draw(st.sampled_from([0.02, 0.1, 0.3])), "levels": levels}
    if kind == "constant":  # an image without any contrast (ordinary decimal values as well as dyadic ones)
        spec["image"]["value"] = draw(st.sampled_from([0.1, 0.2, 0.3, 0.7, 1 / 3, 0.0, 0.5, 1.0, 0.25]))
    # an invalid pixel (not-a-number / infinite) far away from the candidate, i.e. outside the region that is fitted
    spec["image"]["bad_pixel"] = draw(st.sampled_from([None] * 7 + ["nan", "inf", "-inf"]))
    # candidate
    if fam == "cart":
        classes = ["SphericalDroplet", "DiffuseDroplet", "DiffuseDroplet"] + (["PerturbedDroplet2D"] if dim == 2 else []) + (["PerturbedDroplet3D"] if dim == 3 else [])
    elif fam == "polar":
        classes = ["SphericalDroplet", "DiffuseDroplet", "PerturbedDroplet2D"]
    elif fam == "spherical":
        classes = ["SphericalDroplet", "DiffuseDroplet"]
    else:
        classes = ["SphericalDroplet", "DiffuseDroplet", "PerturbedDroplet3DAxisSym"]
    cls = draw(st.sampled_from(classes))
    cpos = list(spec["truth"]["position"])
    for a in free:
        cpos[a] = gen.r6(cpos[a] + draw(st.floats(-2, 2, **finite)) * dmax)
    cand = {"cls": cls, "position": cpos, "radius": gen.r6(R * draw(st.floats(0.7, 1.3, **finite)))}
    if cls != "SphericalDroplet":
        cand["interface_width"] = draw(st.sampled_from([None, 0.0, gen.r6(w), gen.r6(0.5 * w), gen.r6(2 * w)]))
    if cls.startswith("Perturbed"):
        nmodes = draw(st.integers(0, 6)) if cls != "PerturbedDroplet3DAxisSym" else draw(st.integers(0, 3))  # 0 = the documented default (no amplitudes)
        cand["amplitudes"] = [gen.r6(draw(st.floats(-0.1, 0.1, **finite))) if draw(st.booleans()) else 0.0 for _ in range(nmodes)]
    if kind == "self":
        cand["position"] = list(spec["truth"]["position"])
        cand["radius"] = spec["truth"]["radius"]
        if cls != "SphericalDroplet":  # the candidate's own render: diffuse, or (one case in four) sharp
            cand["interface_width"] = 0.0 if draw(st.integers(0, 3)) == 0 else spec["truth"]["interface_width"]
    if fam == "cart" and kind != "self" and draw(st.integers(0, 7)) == 3:
        # candidates that cover no support point of the grid: smaller than a cell and centred on a cell corner, or lying entirely
        # beyond a non-periodic wall; along periodic axes they may sit several periods away from the box
        shape, dx, org, per = g["shape"], g["spacing"], g["origin"], g["periodic"]
        what = draw(st.sampled_from(["tiny-corner", "tiny-corner", "beyond-wall"]))
        cpos = []
        for a in range(dim):
            x = org[a] + dx[a] * draw(st.integers(0, shape[a]))  # a cell corner
            if per[a]:
                x += draw(st.integers(-2, 2)) * shape[a] * dx[a]
            cpos.append(x)
        rad = min(dx) * draw(st.sampled_from([0.1, 0.25, 0.45]))
        walls = [a for a in range(dim) if not per[a]]
        if what == "beyond-wall" and walls:
            a = draw(st.sampled_from(walls))
            rad = R * draw(st.floats(0.7, 1.3, **finite))
            side = draw(st.booleans())
            cpos[a] = org[a] + shape[a] * dx[a] + 1.5 * rad + dx[a] if side else org[a] - 1.5 * rad - dx[a]
        cand["position"] = [gen.r6(x) for x in cpos]
        cand["radius"] = gen.r6(rad)
        cand["no_support"] = what
    spec["candidate"] = cand
    spec["opts"] = {"levels": draw(st.sampled_from(["fixed", "fixed", "auto", "adjust", "auto+adjust"])), "tolerance": draw(st.sampled_from([None, None, 1e-4, 1e-10]))}
    if kind == "constant":  # fitted automatic levels are the delicate request for an image without contrast
        spec["opts"]["levels"] = draw(st.sampled_from(["auto+adjust", "auto+adjust", "auto+adjust", "auto", "adjust", "fixed"]))
    # documented pass-through of solver options; a small evaluation budget makes the fit stop before it has converged
    spec["opts"]["max_nfev"] = draw(st.sampled_from([None, None, None, None, 1, 2, 3, 5, 8]))
    # the image may arrive in another numeric representation: single precision, 8-bit grey levels stored as integers, a boolean image
    spec["image"]["dtype"] = draw(st.sampled_from(["float64"] * 5 + ["float32", "grey-int", "bool"]))
    return spec


def build_grid(spec):
    fam, g = spec["family"], spec["grid"]
    if fam == "cart":
        return gen.build_cart(g)
    if fam == "polar":
        from pde import PolarSymGrid

        return None, PolarSymGrid(g["n"] * g["dr"], g["n"])
    if fam == "spherical":
        from pde import SphericalSymGrid

        return None, SphericalSymGrid(g["n"] * g["dr"], g["n"])
    return None, gen.build_cyl(g)


def mk(d):
    import droplets.droplets as D

    cls = getattr(D, d["cls"])
    pos, rad = gen.as_given(d["position"], d["radius"], d)
    if d["cls"] == "SphericalDroplet":
        return cls(pos, rad)
    if "amplitudes" in d:
        if len(d["amplitudes"]) == 0:
            return cls(pos, rad, d.get("interface_width"))  # amplitudes left at their default (None): a perturbed droplet without modes
        return cls(pos, rad, d.get("interface_width"), np.array(d["amplitudes"], float))
    return cls(pos, rad, d.get("interface_width"))


class _Proxy:
    """stands in for scipy.optimize inside droplets.image_analysis and records the fit"""

    def __init__(self, real):
        self._real = real
        self.rec = []

    def __getattr__(self, k):
        return getattr(self._real, k)

    def least_squares(self, fun, x0, **kw):
        x0 = np.array(x0, float)
        r0 = np.asarray(fun(x0.copy()), float)
        c0 = 0.5 * float(np.sum(r0**2))
        res = self._real.least_squares(fun, x0, **kw)
        self.rec.append({"x0": x0, "cost0": c0, "res": res, "bounds": kw.get("bounds"), "nres": r0.size})
        return res


class C04(Property):
    id = "C04"
    rule = (
        "Hypothesis draws a grid of any family (Cartesian 1-3 D with any periodicity and mild anisotropy, polar, spherical, "
        "cylindrical with both periodic_z), a 'truth' droplet, an image (clean render, render + Gaussian noise, affine-rescaled "
        "render, pure noise, smooth random field, or the render of the candidate itself), a candidate of any compatible class "
        "(Spherical, Diffuse with width None/0/positive, Perturbed2D/3D/axisymmetric with 1-6 modes) displaced by up to 2 cells and +-30 % "
        "in radius, and the intensity option (fixed, automatic, fitted, automatic+fitted) with optional tolerance. refine_droplet is "
        "called directly with scipy.optimize replaced (harness side) by a recording proxy. Oracle: final cost <= initial cost and "
        "solution within bounds (proxy), independently recomputed squared deviation over the dilated fit region (fixed levels), "
        "result class, non-negative radius/width, amplitudes in [-1,1], symmetry-fixed coordinates bitwise unchanged, position inside "
        "the box on periodic axes, image bit-identical, fixed point when the image is the candidate's own render. Non-trivial = the "
        "optimiser evaluated more than one point or the case is a fixed-point case; distinct = distinct spec hash."
    )
    assumptions = [
        "scipy.optimize.least_squares is trusted; the proxy only observes its arguments and result",
        "fit regions that are empty make the case trivial (the candidate is returned)",
        "the fixed-point clause is judged for candidates that carry an explicit interface width, including the sharp width 0 (for Spherical / width-None candidates the fitted model differs from the rendered one); the independent deviation is not recomputed on periodic cylindrical grids (py-pde 0.58 does not wrap z when rendering, so a result wrapped into the box renders differently)",
        "fixed-point tolerance 1e-6 relative (solver tolerance); cost comparison slack 1e-12 relative + 1e-18 x N x range^2 absolute",
        "sharp candidates (width 0) with a cell centre within 1e-6 R of the interface are knife-edge cases: cost comparison, independent deviation and fixed point are not judged there (counted as class sharp-knife-edge)",
    ]

    def budget(self, tier):
        return {"examples": 2400 if tier == "quick" else 40000, "shards": 16}

    def strategy(self, tier):
        return specs(tier)

    def check(self, spec, ctx: Ctx):
        from pde import ScalarField
        from scipy import ndimage, optimize

        import droplets.image_analysis as ia
        from droplets import DiffuseDroplet

        geom, grid = build_grid(spec)
        fam = spec["family"]
        truth = DiffuseDroplet(np.array(spec["truth"]["position"], float), spec["truth"]["radius"], spec["truth"]["interface_width"])
        im = spec["image"]
        vmin, vmax = im["levels"]
        rng = np.random.default_rng(im["seed"])
        cand = mk(spec["candidate"])
        kind = im["kind"]
        if kind == "self":
            img = cand.get_phase_field(grid, vmin=vmin, vmax=vmax)
        else:
            img = truth.get_phase_field(grid, vmin=vmin, vmax=vmax)
        data = np.array(img.data, float)
        if kind == "noisy":
            data = data + rng.normal(0, im["sigma"] * (vmax - vmin), data.shape)
        elif kind == "noise":
            data = vmin + (vmax - vmin) * rng.random(data.shape)
        elif kind == "smooth":
            idx = np.stack(np.meshgrid(*[np.arange(n) for n in data.shape], indexing="ij"), -1)
            data = vmin + (vmax - vmin) * (0.5 + 0.5 * np.cos((idx * rng.uniform(0.1, 0.9, idx.shape[-1])).sum(-1) + rng.uniform(0, 6)))
        elif kind == "constant":
            data = np.full(data.shape, vmin + (vmax - vmin) * im["value"])
        img_dt = im.get("dtype", "float64")
        if img_dt == "float32":
            field = ScalarField(grid, data.astype(np.float32), dtype=np.float32)
        elif img_dt == "grey-int":  # grey levels 0..255 between the two intensity levels, stored as integers
            grey = np.clip(np.round(255 * (data - min(vmin, vmax)) / abs(vmax - vmin)), 0, 255).astype(int)
            field = ScalarField(grid, grey, dtype=int)
            vmin, vmax = (0.0, 255.0) if vmax > vmin else (255.0, 0.0)
        elif img_dt == "bool":
            field = ScalarField(grid, data > 0.5 * (vmin + vmax), dtype=bool)
            vmin, vmax = (0.0, 1.0) if vmax > vmin else (1.0, 0.0)
        else:
            field = ScalarField(grid, data)
        if img_dt != "float64":
            ctx.cls(f"image-dtype:{img_dt}")
            data = np.array(field.data, float)  # what the oracles compare with: the values the field actually holds
        bad = im.get("bad_pixel")
        if bad and img_dt in ("float64", "float32"):
            # one invalid pixel in the cell that is farthest from the candidate - provided it lies outside the fitted region (the
            # candidate's cells enlarged by 1 + 2 w cells); the oracles keep working with the valid values (`data`)
            c_tmp = cand if isinstance(cand, DiffuseDroplet) else DiffuseDroplet.from_droplet(cand)
            w_tmp = c_tmp.interface_width if c_tmp.interface_width is not None else float(grid.typical_discretization)
            region_tmp = ndimage.binary_dilation(np.asarray(c_tmp._get_phase_field(grid, dtype=bool)), iterations=3 + int(2 * w_tmp / float(grid.typical_discretization)))
            free_cells = np.argwhere(~region_tmp)
            if len(free_cells):
                cell = tuple(free_cells[int(im["seed"]) % len(free_cells)])
                field.data[cell] = {"nan": np.nan, "inf": np.inf, "-inf": -np.inf}[bad]
                ctx.cls(f"invalid-pixel-outside-fit-region:{bad}")
        snap = field.data.tobytes()
        mode = spec["opts"]["levels"]
        kw = {}
        if mode in ("fixed", "adjust"):
            kw.update(vmin=vmin, vmax=vmax)
        else:
            kw.update(vmin=None, vmax=None)
        if "adjust" in mode:
            kw["adjust_values"] = True
        if spec["opts"]["tolerance"] is not None:
            kw["tolerance"] = spec["opts"]["tolerance"]
        if spec["opts"].get("max_nfev") is not None:
            kw["least_squares_params"] = {"max_nfev": spec["opts"]["max_nfev"]}
            ctx.cls("evaluation-budget")
        cand0 = cand.copy()
        ctx.cls(fam, spec["candidate"]["cls"], f"image:{kind}", f"levels:{mode}")
        if spec["candidate"].get("no_support"):
            ctx.cls("candidate:" + spec["candidate"]["no_support"])
        # knife-edge rule for sharp candidates: the solver moves a start value that sits on a bound strictly inside (1e-10
        # relative) and probes with steps of 1e-8; if a cell centre lies within 1e-6 R of the sharp interface the indicator of
        # that cell is not stable under such moves and neither the cost comparison nor the fixed point can be judged
        sharp_knife_edge = False
        if isinstance(cand0, DiffuseDroplet) and cand0.interface_width == 0:
            lo_c, hi_c = cand0.copy(), cand0.copy()
            lo_c.radius, hi_c.radius = cand0.radius * (1 - 1e-6), cand0.radius * (1 + 1e-6)
            sharp_knife_edge = not np.array_equal(np.asarray(lo_c._get_phase_field(grid, dtype=bool)), np.asarray(hi_c._get_phase_field(grid, dtype=bool)))
            if sharp_knife_edge:
                ctx.cls("sharp-knife-edge")
        proxy = _Proxy(optimize)
        ia.optimize = proxy
        try:
            res = ia.refine_droplet(field, cand, **kw)
        finally:
            ia.optimize = optimize
        # --- image untouched, class ---------------------------------------------------------
        ctx.require(field.data.tobytes() == snap, "image-modified", "refine_droplet modified the image")
        exp_cls = type(cand0) if isinstance(cand0, DiffuseDroplet) else DiffuseDroplet
        if not ctx.require(type(res) is exp_cls, "class", f"candidate {type(cand0).__name__} -> result {type(res).__name__}, expected {exp_cls.__name__}"):
            return
        ctx.require(res.radius >= 0 and math.isfinite(res.radius), "radius-negative", f"radius {res.radius}")
        ctx.require(res.interface_width is not None and res.interface_width >= 0, "width-negative-or-unset", f"width {res.interface_width}")
        if hasattr(res, "amplitudes"):
            ctx.require(len(res.amplitudes) == len(cand0.amplitudes) and bool(np.all(np.abs(res.amplitudes) <= 1)), "amplitudes-out-of-bounds", f"amplitudes {res.amplitudes}")
        # --- symmetry constraints and periodic box --------------------------------------------
        for i in grid.coordinate_constraints:
            ctx.require(res.position[i].tobytes() == cand0.position[i].tobytes(), f"constrained-coordinate-changed:{fam}", f"coordinate {i} fixed by the symmetry of the grid changed from {cand0.position[i]} to {res.position[i]}")
        if fam == "cart":
            for a in range(geom.dim):
                if geom.periodic[a]:
                    lo, hi = geom.origin[a], geom.origin[a] + geom.L[a]
                    eps = 1e-9 * geom.L[a]
                    ctx.require(lo - eps <= res.position[a] <= hi + eps, "outside-periodic-box:cart", f"axis {a}: position {res.position[a]} outside [{lo}, {hi}]")
        elif fam == "cyl" and spec["grid"]["periodic_z"]:
            g = spec["grid"]
            lo, hi = g["z0"], g["z0"] + g["nz"] * g["dz"]
            ctx.require(lo - 1e-9 * (hi - lo) <= res.position[2] <= hi + 1e-9 * (hi - lo), "outside-periodic-box:cyl", f"z = {res.position[2]} outside [{lo}, {hi}]")
        # --- the fit itself (proxy) ---------------------------------------------------------------
        if not proxy.rec:
            ctx.cls("no-fit")
            return
        rec = proxy.rec[0]
        r = rec["res"]
        if rec["nres"] == 0:
            ctx.cls("empty-fit-region")
        ctx.nontrivial = r.nfev > 1 or kind == "self"
        # absolute slack: a candidate on a bound (sharp interface, width 0) is moved strictly inside by the solver (1e-10 relative)
        slack = 1e-18 * rec["nres"] * (np.ptp(data) if np.ptp(data) > 0 else 1.0) ** 2
        if not sharp_knife_edge:
            ctx.require(r.cost <= rec["cost0"] * (1 + 1e-12) + slack, "cost-increased", f"final cost {r.cost} > initial cost {rec['cost0']}")
        if rec["bounds"] is not None:
            lb, ub = rec["bounds"]
            ctx.require(bool(np.all(r.x >= np.asarray(lb) - 1e-300) and np.all(r.x <= np.asarray(ub) + 1e-300)), "solution-out-of-bounds", f"solution {r.x} outside [{lb}, {ub}]")
        # --- independent deviation over the fit region (fixed levels only) -------------------------
        periodic_cyl = fam == "cyl" and spec["grid"]["periodic_z"]  # py-pde does not wrap z when rendering: a wrapped result renders differently
        if mode == "fixed" and rec["nres"] > 0 and not periodic_cyl and not sharp_knife_edge:
            c_diff = cand0 if isinstance(cand0, DiffuseDroplet) else DiffuseDroplet.from_droplet(cand0)
            if c_diff.interface_width is None:
                c_diff = c_diff.copy()
                c_diff.interface_width = float(grid.typical_discretization)
            region = ndimage.binary_dilation(np.asarray(c_diff._get_phase_field(grid, dtype=bool)), iterations=1 + int(2 * c_diff.interface_width / float(grid.typical_discretization)))

            def dev(drop):
                return float(np.sum((vmin + (vmax - vmin) * np.asarray(drop._get_phase_field(grid))[region] - data[region]) ** 2))

            d_c, d_r = dev(c_diff), dev(res)
            ctx.require(d_r <= d_c * (1 + 1e-9) + 1e-18 * region.sum() * (vmax - vmin) ** 2, f"deviation-increased:{fam}", f"squared deviation over the fit region: candidate {d_c}, result {d_r}")
            ctx.require(abs(0.5 * d_c - rec["cost0"]) <= 1e-9 * max(d_c, 1e-300) + 1e-300, "fit-region-or-model-differs", f"independently computed initial deviation {0.5 * d_c} vs the optimiser's initial cost {rec['cost0']}")
        # --- fixed point ------------------------------------------------------------------------
        explicit_width = isinstance(cand0, DiffuseDroplet) and cand0.interface_width is not None and cand0.interface_width >= 0
        if kind == "self" and mode == "fixed" and explicit_width and not sharp_knife_edge and img_dt == "float64":
            ctx.cls("fixed-point" + (":sharp" if cand0.interface_width == 0 else ""))
            ref = cand0
            # a sharp candidate (width 0) sits on the lower bound of the width: the deviation is measured relative to a cell
            w_ref = ref.interface_width if ref.interface_width > 0 else float(np.max(grid.discretization))
            if fam == "cart":
                dpos = np.abs(geom.min_image(np.asarray(res.position, float) - np.asarray(ref.position, float)))
                dmax = float(geom.dx.max())
            else:
                dpos = np.abs(np.asarray(res.position, float) - np.asarray(ref.position, float))
                dmax = float(np.max(grid.discretization))
            err = max(float(dpos.max()) / dmax, abs(res.radius - ref.radius) / ref.radius, abs(res.interface_width - ref.interface_width) / w_ref)
            if hasattr(res, "amplitudes") and len(ref.amplitudes):
                err = max(err, float(np.abs(res.amplitudes - ref.amplitudes).max()))
            ctx.require(err <= 1e-6, f"fixed-point-moved:{fam}", f"image rendered from the candidate itself, yet the result differs by {err} (relative)")


PROP = C04()
