"""C11 - merging droplets conserves volume and centre of mass."""

from __future__ import annotations

import numpy as np
from hypothesis import strategies as st

from vf import gen
from vf import oracles as O
from vf.engine import Ctx, Property

finite = gen.finite

_radius = st.one_of(
    st.floats(-3, 3, **finite).map(lambda e: gen.r6(10.0**e)),
    st.floats(0.5, 2.0, **finite).map(gen.r6),
    st.just(0.0),
    st.integers(1, 5).map(float),
)
_coord = st.one_of(st.floats(-1e3, 1e3, **finite).map(gen.r6), st.integers(-3, 3).map(float))
_width = st.one_of(st.floats(-2, 1, **finite).map(lambda e: gen.r6(10.0**e)), st.floats(-2, 1, **finite).map(lambda e: gen.r6(10.0**e)), st.just(0.0))  # incl. the sharp interface 0


@st.composite
def specs(draw):
    dim = draw(st.integers(1, 3))
    cls = draw(st.sampled_from(["SphericalDroplet", "DiffuseDroplet"]))
    n = draw(st.sampled_from([2, 2, 2, 3, 4, 5, 8]))
    drops = []
    for _ in range(n):
        d = {"position": [draw(_coord) for _ in range(dim)], "radius": draw(_radius)}
        if cls == "DiffuseDroplet":
            d["interface_width"] = draw(_width)
        drops.append(d)
    # positive total volume for every pair that may be merged: make at most one radius zero
    zeros = [i for i, d in enumerate(drops) if d["radius"] == 0]
    for i in zeros[1:]:
        drops[i]["radius"] = 1.0
    trees = []
    for _ in range(2):
        tree = []
        m = n
        while m > 1:
            i = draw(st.integers(0, m - 1))
            j = draw(st.integers(0, m - 2))
            if j >= i:
                j += 1
            tree.append([i, j])
            m -= 1
        trees.append(tree)
    return {"dim": dim, "cls": cls, "droplets": drops, "trees": trees}


def rel_close(a, b, rtol, scale=None):
    a = np.asarray(a, float)
    b = np.asarray(b, float)
    if not (np.all(np.isfinite(a)) and np.all(np.isfinite(b))):
        return bool(np.array_equal(a, b, equal_nan=True))  # non-finite values only match identical non-finite values
    s = np.maximum(np.abs(a), np.abs(b)) if scale is None else scale
    return bool(np.all(np.abs(a - b) <= rtol * s + 1e-300))


class C11(Property):
    id = "C11"
    rule = (
        "Hypothesis draws a class (Spherical/Diffuse), dim 1-3, 2-8 droplets (positions +-1e3 incl. small integers, radii 10^U(-3,3), "
        "0, near-equal and integer radii, widths positive or exactly 0) and two random binary merge trees. The first pair is merged through all three "
        "code paths (merge(inplace=False), merge(inplace=True), numba.njit(cls._make_merge_data())) and compared with the textbook "
        "volume sum / volume-weighted centre / mean width, with operand order swapped, and for operand mutation; both merge trees must "
        "give the same total volume and centre of mass as the oracle. Non-trivial = radii of the first pair differ by > 1 %, or a zero "
        "radius, or >= 3 droplets; distinct = distinct spec hash."
    )
    assumptions = [
        "tolerances: volume rtol 1e-12, position 1e-12 x max|coordinate|, path agreement 1e-13, merge trees 1e-10",
        "'symbolically for all positive reals' is not reachable by search; 6 decades of radius are sampled",
    ]

    def budget(self, tier):
        return {"examples": 8000 if tier == "quick" else 150000, "shards": 16}

    def strategy(self, tier):
        return specs()

    def warmup(self):
        import numba as nb

        import droplets

        self.jit = {}
        for name in ("SphericalDroplet", "DiffuseDroplet"):
            cls = getattr(droplets, name)
            fn = nb.njit(cls._make_merge_data())
            self.jit[name] = fn
            for dim in (1, 2, 3):
                a = cls(np.zeros(dim), 1.0) if name == "SphericalDroplet" else cls(np.zeros(dim), 1.0, 0.5)
                out = np.record(np.zeros_like(a.data))
                try:  # only to fill the JIT cache; a failure here shows up in the judged cases
                    fn(a.data, a.copy().data, out)
                except Exception:  # noqa: BLE001
                    pass

    def _make(self, cls, d):
        if "interface_width" in d:
            obj = cls(*gen.as_given(d["position"], d["radius"], d), d["interface_width"])
        else:
            obj = cls(*gen.as_given(d["position"], d["radius"], d))
        return self._provenance(obj, d)

    def _provenance(self, obj, d):
        """The same droplet as it comes out of other public routes: a copy, a pickle round trip (as between processes), an
        emulsion read back member by member, or - for diffuse droplets - the object returned by refine_droplet (whose
        parameters are then set to the wanted values through the public setters)."""
        import copy
        import hashlib
        import json
        import pickle

        h = hashlib.sha256(json.dumps(d, sort_keys=True).encode()).digest()[5] % 8
        if h == 1:
            return obj.copy()
        if h == 2:
            return pickle.loads(pickle.dumps(obj))
        if h == 3:
            return copy.deepcopy(obj)
        if h == 4:
            from droplets import Emulsion

            return Emulsion([obj])[0]
        if h == 5 and "interface_width" in d:
            from pde import UnitGrid

            from droplets import DiffuseDroplet
            from droplets.image_analysis import refine_droplet

            dim = len(d["position"])
            grid = UnitGrid([8] * dim)
            seed_drop = DiffuseDroplet([4.0] * dim, 2.0, 1.0)
            res = refine_droplet(seed_drop.get_phase_field(grid), DiffuseDroplet([4.2] * dim, 2.1, 1.0))
            res.position = np.array(d["position"], float)
            res.radius = float(d["radius"])
            res.interface_width = d["interface_width"]
            return res
        return obj

    def check(self, spec, ctx: Ctx):
        import droplets

        cls = getattr(droplets, spec["cls"])
        dim = spec["dim"]
        ds = spec["droplets"]
        objs = [self._make(cls, d) for d in ds]
        a, b = objs[0], objs[1]
        ra, rb = ds[0]["radius"], ds[1]["radius"]
        ctx.cls(spec["cls"], f"dim{dim}", f"n{len(ds)}")
        if ra == 0 or rb == 0:
            ctx.cls("zero-radius")
        ctx.nontrivial = len(ds) >= 3 or ra == 0 or rb == 0 or abs(ra - rb) > 0.01 * max(ra, rb)
        Va, Vb = O.sphere_volume(ra, dim), O.sphere_volume(rb, dim)
        xa, xb = np.array(ds[0]["position"], float), np.array(ds[1]["position"], float)
        scale = max(np.abs(xa).max(), np.abs(xb).max())
        if Va + Vb > 0:
            Vexp = Va + Vb
            xexp = (Va * xa + Vb * xb) / Vexp
            snap_a, snap_b = a.data.tobytes(), b.data.tobytes()
            # out-of-place
            r1 = a.merge(b)
            ctx.require(type(r1) is cls, "type", f"merge returned {type(r1).__name__}")
            ctx.require(a.data.tobytes() == snap_a and b.data.tobytes() == snap_b, "operand-modified", "merge(inplace=False) modified an operand")
            ctx.require(r1 is not a and r1 is not b and not np.shares_memory(r1.data, a.data) and not np.shares_memory(r1.data, b.data), "result-aliases-operand", "result shares memory with an operand")
            ctx.require(rel_close(r1.volume, Vexp, 1e-12), f"volume:dim{dim}", f"V={r1.volume} expected {Vexp} (r={ra},{rb})")
            ctx.require(rel_close(r1.position, xexp, 1e-12, scale), f"position:dim{dim}", f"pos={r1.position} expected {xexp}")
            if "interface_width" in ds[0]:
                wexp = (ds[0]["interface_width"] + ds[1]["interface_width"]) / 2
                ctx.require(rel_close(r1.interface_width, wexp, 1e-15), "width", f"width={r1.interface_width} expected {wexp}")
            # swapped operands
            r2 = b.merge(a)
            ctx.require(rel_close(r2.volume, r1.volume, 1e-12) and rel_close(r2.position, r1.position, 1e-12, scale), "not-commutative", f"a.merge(b)={r1} b.merge(a)={r2}")
            # compiled path
            out = np.record(np.zeros_like(a.data))
            try:
                self.jit[spec["cls"]](a.data, b.data, out)
            except Exception as exc:  # noqa: BLE001 - raised inside compiled library code (no python frame)
                ctx.fail(f"compiled-raises:{type(exc).__name__}", f"compiled merge of r={ra},{rb} raised {type(exc).__name__}: {exc}")
                return
            r3 = cls.from_data(out)
            ctx.require(a.data.tobytes() == snap_a and b.data.tobytes() == snap_b, "operand-modified:compiled", "compiled merge modified an operand")
            ctx.require(rel_close(r3._data_array, r1._data_array, 1e-13, np.maximum(np.abs(r1._data_array), scale)), "paths-differ:compiled", f"compiled {r3} vs python {r1}")
            # the output record may be one of the operands (that is how the in-place merge works): the first or the second one
            for which in ("first", "second"):
                for kind, fn in (("compiled", self.jit[spec["cls"]]), ("python", cls._make_merge_data())):
                    ca, cb = a.copy(), b.copy()
                    tgt = ca.data if which == "first" else cb.data
                    try:
                        fn(ca.data, cb.data, tgt)
                    except Exception as exc:  # noqa: BLE001
                        ctx.fail(f"merge-data-raises:{kind}:out={which}", f"{type(exc).__name__}: {exc}")
                        continue
                    got = np.array([x for n in tgt.dtype.names for x in np.atleast_1d(tgt[n])], float)
                    ctx.require(rel_close(got, r1._data_array, 1e-13, np.maximum(np.abs(r1._data_array), scale)), f"paths-differ:{kind}:out-is-{which}-operand", f"merge kernel ({kind}) writing into its {which} operand gives {got}, the out-of-place merge {r1._data_array}")
            # a droplet merged with itself: twice the volume at the same place
            if Va > 0:
                s1 = self._make(cls, ds[0])
                rs = s1.merge(s1)
                ctx.require(rel_close(rs.volume, 2 * Va, 1e-12) and rel_close(rs.position, xa, 1e-12, scale), "self-merge", f"d.merge(d) = {rs} for d = {s1}")
                s2 = self._make(cls, ds[0])
                s2.merge(s2, inplace=True)
                ctx.require(rel_close(s2._data_array, rs._data_array, 1e-13, np.maximum(np.abs(rs._data_array), scale)), "paths-differ:self-merge-inplace", f"d.merge(d, inplace=True) gives {s2}, d.merge(d) {rs}")
            # in-place
            # the in-place merge is applied to a droplet of the same provenance as `a` (not to a fresh copy of it), and the flag is
            # handed over in one of its equivalent true forms
            a2, b2 = self._make(cls, ds[0]), self._make(cls, ds[1])
            flag = [True, np.True_, 1, np.bool_(True)][int(1000 * abs(ra + rb)) % 4]
            a3, b3 = self._make(cls, ds[0]), self._make(cls, ds[1])
            ret3 = a3.merge(b3, inplace=flag)  # directly on the droplets as they come, before anything else touches them
            ctx.require(ret3 is a3, "inplace-return", f"merge(inplace={flag!r}) did not return self")
            ctx.require(rel_close(a3._data_array, r1._data_array, 1e-13, np.maximum(np.abs(r1._data_array), scale)), "paths-differ:inplace-direct", f"inplace {a3} vs out-of-place {r1}")
            ctx.require(b3.data.tobytes() == snap_b, "operand-modified:inplace-other", "merge(inplace=True) modified `other`")
            from droplets import Emulsion

            em_link = Emulsion([a2, b2], copy=False)
            linked = em_link.get_linked_data()  # documented: entries of this array mirror the droplets' data
            ret = a2.merge(b2, inplace=flag)
            ctx.require(ret is a2, "inplace-return", f"merge(inplace={flag!r}) did not return self")
            # in place means in the droplet's own record: an array linked to the droplet before the merge still mirrors it, and a
            # value written into the array afterwards reaches the droplet
            ctx.require(linked[0].tobytes() == a2.data.tobytes(), "inplace:link-broken", f"after merge(inplace=True) the linked data row {linked[0]} no longer mirrors the droplet {a2}")
            if not ctx.violations:
                linked["radius"][0] = 2.5
                ctx.require(a2.radius == 2.5, "inplace:link-broken", "a radius written into the linked array after the in-place merge did not reach the droplet")
                a2.radius = float(r1.radius)
            ctx.require(b2.data.tobytes() == snap_b, "operand-modified:inplace-other", "merge(inplace=True) modified `other`")
            ctx.require(rel_close(a2._data_array, r1._data_array, 1e-13, np.maximum(np.abs(r1._data_array), scale)), "paths-differ:inplace", f"inplace {a2} vs out-of-place {r1}")
        # merge trees over the whole list
        V = np.array([O.sphere_volume(d["radius"], dim) for d in ds])
        X = np.array([d["position"] for d in ds], float)
        Vtot = V.sum()
        com = (V[:, None] * X).sum(0) / Vtot
        sc = np.abs(X).max()
        for t, tree in enumerate(spec["trees"]):
            cur = [o.copy() for o in objs]
            ok = True
            for i, j in tree:
                if cur[i].radius == 0 and cur[j].radius == 0:
                    ok = False
                    break
                m = cur[i].merge(cur[j], inplace=bool((i + j) % 2))
                cur[i] = m
                del cur[j]
            if not ok:
                continue
            res = cur[0]
            ctx.require(rel_close(res.volume, Vtot, 1e-10), f"tree-volume:dim{dim}", f"tree {tree}: V={res.volume} expected {Vtot}")
            ctx.require(rel_close(res.position, com, 1e-10, sc), f"tree-com:dim{dim}", f"tree {tree}: pos={res.position} expected {com}")
        for o, d in zip(objs, ds):
            ctx.require(o.radius == d["radius"] and np.array_equal(o.position, np.array(d["position"], float)), "operand-modified:tree", "an input droplet changed")


PROP = C11()
