"""C08 - saving and loading returns an equal object."""

from __future__ import annotations

import os
import shutil
import tempfile

import numpy as np
from hypothesis import strategies as st

from vf import gen
from vf import tracking as T
from vf.engine import Ctx, Property

finite = gen.finite

_pos = st.one_of(
    st.floats(-1e3, 1e3, **finite).map(gen.r6),
    st.sampled_from([0.0, -0.0, 1e-300, -1e-300, 1e300, -1e300, 5e-324, 1.7976931348623157e308]),
    st.floats(allow_nan=False, allow_infinity=False),
)
_rad = st.one_of(
    st.floats(0, 1e3, **finite).map(gen.r6),
    st.sampled_from([0.0, 1e-300, 1e300, 5e-324, 1.7976931348623157e308, 1.0]),
    st.floats(min_value=0, allow_nan=False, allow_infinity=False),
)
_width = st.one_of(st.none(), st.just(0.0), st.floats(0, 1e3, **finite).map(gen.r6), st.sampled_from([1e-300, 1e300]))
_amp = st.one_of(st.floats(-1, 1, **finite).map(gen.r6), st.sampled_from([0.0, -0.0, 1.0, -1.0, 1e-300]))
_time = st.one_of(st.integers(-(2**53), 2**53), st.integers(-10, 10), st.floats(-1e6, 1e6, **finite).map(gen.r6), st.floats(allow_nan=False, allow_infinity=False))

CLASSES = {
    1: ["SphericalDroplet", "DiffuseDroplet"],
    2: ["SphericalDroplet", "DiffuseDroplet", "PerturbedDroplet2D"],
    3: ["SphericalDroplet", "DiffuseDroplet", "PerturbedDroplet3D", "PerturbedDroplet3DAxisSym"],
}


@st.composite
def droplet(draw, cls, dim, modes):
    d = {"cls": cls, "position": [draw(_pos) for _ in range(dim)], "radius": draw(_rad)}
    if cls == "PerturbedDroplet3DAxisSym":
        d["position"][0] = draw(st.sampled_from([0.0, -0.0]))
        d["position"][1] = draw(st.sampled_from([0.0, -0.0]))
    if cls != "SphericalDroplet":
        d["interface_width"] = draw(_width)
    if cls.startswith("Perturbed"):
        d["amplitudes"] = [draw(_amp) for _ in range(modes)]
    return d


TWINS = {"PerturbedDroplet3D": "PerturbedDroplet3DAxisSym", "PerturbedDroplet3DAxisSym": "PerturbedDroplet3D"}


@st.composite
def member(draw, dim, cls, modes, hetero, maxn=8):
    n = draw(st.integers(0, maxn))
    out = []
    for _ in range(n):
        c, dm, mo = cls, dim, modes
        if hetero:
            what = draw(st.sampled_from(["class", "modes", "dim", "twin", "same", "same"] + (["twin"] * 4 if cls in TWINS else [])))
            if what == "twin":  # a different class with the same data layout (only pair: the two 3-D perturbed classes)
                c = TWINS.get(cls, cls)
            elif what == "class":
                c = draw(st.sampled_from(CLASSES[dim]))
            elif what == "modes" and cls.startswith("Perturbed"):
                mo = draw(st.integers(1, 6))
            elif what == "dim":
                dm = draw(st.integers(1, 3))
                if c not in CLASSES[dm]:
                    c = draw(st.sampled_from(CLASSES[dm][:2]))
        out.append(draw(droplet(c, dm, mo)))
    return out


@st.composite
def specs(draw, tier="quick"):
    kind = draw(st.sampled_from(["Emulsion", "EmulsionTimeCourse", "DropletTrack", "DropletTrackList"]))
    dim = draw(st.integers(1, 3))
    cls = draw(st.sampled_from(CLASSES[dim]))
    modes = draw(st.integers(1, 8))
    hetero = draw(st.integers(0, 5)) == 0
    spec = {"kind": kind, "dim": dim, "cls": cls, "hetero": hetero, "build": draw(st.sampled_from(["ctor", "ctor", "append"]))}
    # optional additional information stored alongside (file attributes); it must not influence what is read back
    spec["info"] = draw(st.sampled_from([None, None, {}, {"comment": "x", "n": 3}, {"time": 5, "droplet_class": "SphericalDroplet", "times": [1, 2]}]))
    if kind == "Emulsion":
        spec["members"] = [draw(member(dim, cls, modes, hetero))]
    elif kind == "DropletTrack":
        m = draw(member(dim, cls, modes, hetero))
        spec["members"] = [m]
        spec["times"] = [draw(st.lists(_time, min_size=len(m), max_size=len(m)))]
    elif kind == "EmulsionTimeCourse":
        n = draw(st.one_of(st.integers(0, 6), st.integers(0, 6), st.integers(10, 13)))
        spec["members"] = [draw(member(dim, cls, modes, hetero, maxn=4 if n < 10 else 1)) for _ in range(n)]
        spec["times"] = draw(st.lists(_time, min_size=n, max_size=n))
        spec["member_hetero"] = hetero
    else:
        n = draw(st.one_of(st.integers(0, 6), st.integers(0, 6), st.integers(10, 13)))
        spec["members"] = [draw(member(dim, cls, modes, hetero, maxn=4 if n < 10 else 2)) for _ in range(n)]
        spec["times"] = [draw(st.lists(_time, min_size=len(m), max_size=len(m))) for m in spec["members"]]
    if not hetero and draw(st.integers(0, 59)) == 29:  # (not 0 or 59: Hypothesis favours the ends of an integer range)
        # large collections (beyond block sizes, buffer lengths and key widths): many droplets in one member, or many members;
        # the additional content is a pure function of (n, seed) and is expanded when the case is built
        ladder = [33, 130, 257, 300, 1025, 1100] if tier == "quick" else [33, 130, 257, 300, 1025, 1100, 2050, 4100]
        spec["bulk"] = {"what": draw(st.sampled_from(["droplets", "members"] if kind in ("EmulsionTimeCourse", "DropletTrackList") else ["droplets"])), "n": draw(st.sampled_from(ladder)), "seed": draw(st.integers(0, 1000)), "modes": modes}
    return spec


def expand_bulk(spec):
    """the spec with its `bulk` request carried out (see specs)"""
    b = spec.get("bulk")
    if not b:
        return spec
    rng = np.random.default_rng([b["n"], b["seed"]])
    kind, dim, cls = spec["kind"], spec["dim"], spec["cls"]

    def one():
        d = {"cls": cls, "position": [gen.r6(float(x)) for x in rng.uniform(-50, 50, dim)], "radius": gen.r6(float(rng.uniform(0, 5)))}
        if cls == "PerturbedDroplet3DAxisSym":
            d["position"][0] = d["position"][1] = 0.0
        if cls != "SphericalDroplet":
            d["interface_width"] = None if rng.random() < 0.1 else gen.r6(float(rng.uniform(0, 2)))
        if cls.startswith("Perturbed"):
            d["amplitudes"] = [gen.r6(float(x)) for x in rng.uniform(-0.2, 0.2, b["modes"])]
        return d

    members = [list(m) for m in spec["members"]]
    times = spec.get("times")
    out = dict(spec)
    if b["what"] == "droplets":
        if not members:
            members = [[]]
            if kind == "EmulsionTimeCourse":
                times = [0.5]
            elif kind in ("DropletTrack", "DropletTrackList"):
                times = [[]]
        i = b["seed"] % len(members)
        members[i] = members[i] + [one() for _ in range(b["n"])]
        if kind in ("DropletTrack", "DropletTrackList"):
            times = [list(t) for t in times]
            times[i] = times[i] + [gen.r6(float(x)) for x in np.cumsum(rng.uniform(0.01, 2, b["n"]))]
    else:
        extra = [[one() for _ in range(int(rng.integers(0, 3)))] for _ in range(b["n"])]
        members = members + extra
        if kind == "EmulsionTimeCourse":
            times = list(times) + [gen.r6(float(x)) for x in rng.uniform(-100, 100, b["n"])]
        else:
            times = [list(t) for t in times] + [[gen.r6(float(x)) for x in np.cumsum(rng.uniform(0.01, 2, len(m)))] for m in extra]
    out["members"] = members
    if times is not None:
        out["times"] = times
    return out


def _track(drops, times, build="append"):
    from droplets import DropletTrack

    if build == "ctor":  # documented constructor: droplets and times given as lists
        return DropletTrack(droplets=[T.build_droplet(d) for d in drops], times=list(times))
    tr = DropletTrack()
    for d, t in zip(drops, times):
        tr.append(T.build_droplet(d), time=t)
    return tr


def ctx_hash_even(spec):
    """deterministic coin (pure function of the spec): remove a stale file first in half of the cases"""
    import hashlib
    import json

    return hashlib.sha256(json.dumps(spec, sort_keys=True).encode()).digest()[0] % 2 == 0


def records(obj, kind):
    """canonical content: list of members, each a list of (class name, record bytes); plus times"""
    if kind == "Emulsion":
        return [[(type(d).__name__, d.data.tobytes()) for d in obj]], None
    if kind == "EmulsionTimeCourse":
        return [[(type(d).__name__, d.data.tobytes()) for d in e] for e in obj.emulsions], [float(t) for t in obj.times]
    if kind == "DropletTrack":
        return [[(type(d).__name__, d.data.tobytes()) for d in obj.droplets]], [[float(t) for t in obj.times]]
    return [[(type(d).__name__, d.data.tobytes()) for d in tr.droplets] for tr in obj], [[float(t) for t in tr.times] for tr in obj]


class C08(Property):
    id = "C08"
    rule = (
        "Hypothesis builds Emulsion / EmulsionTimeCourse / DropletTrack / DropletTrackList objects from every droplet class (perturbed "
        "classes with 1-8 amplitudes), dims 1-3, widths None/0/positive, extreme finite parameters (5e-324 ... 1.8e308, negative, -0.0), "
        "0-8 members (time courses and track lists also 10-13 members, beyond one decimal digit of the key) incl. empty collections and empty members in the middle, times = ints up to 2^53 / floats / negative / unordered; "
        "one case in six is heterogeneous (mixed classes - including the two 3-D perturbed classes that share one data layout -, mode counts or dimensions). The object is written with to_file into a "
        "per-process scratch directory (in half of the cases over the file left by the previous case) and read with from_file. Oracle: round trip - if writing returns, reading must return the same "
        "lengths, classes, byte-identical records, equal times in order, and library equality; if writing raises the case counts as "
        "'write refused'. History: the written object is then edited in place (a droplet's setters, or item replacement) and written and read again - the file must describe the edited object. Non-trivial = at least one droplet and (>= 2 members/droplets, an empty member, a None width, a perturbed "
        "class or dim != 2); distinct = distinct spec hash."
    )
    assumptions = [
        "collections with more than 10^6 members (limit of the zero-padded key scheme) are not generated",
        "times beyond 2^53 are not generated (not exactly representable in the float64 time column)",
    ]

    def budget(self, tier):
        return {"examples": 6000 if tier == "quick" else 80000, "shards": 12 if tier == "quick" else 16}

    def strategy(self, tier):
        return specs(tier)

    # heterogeneous collections that share one data layout (the two 3-D perturbed classes with equal mode counts) and mixed mode
    # counts, for every kind of collection and both orders: a fixed sweep (random draws reach these combinations unevenly)
    def exhaustive_jobs(self, tier):
        jobs = [{"domain": "layout-twins", "kind": k} for k in ("Emulsion", "EmulsionTimeCourse", "DropletTrack", "DropletTrackList")]
        # large collections: a fixed sweep over the count ladder (random draws of this rare branch are too uneven to rely on)
        ladder = [33, 257, 1025, 1100] if tier == "quick" else [33, 257, 1025, 1100, 2050, 4100]
        for k in ("Emulsion", "EmulsionTimeCourse", "DropletTrack", "DropletTrackList"):
            for what in (["droplets", "members"] if k in ("EmulsionTimeCourse", "DropletTrackList") else ["droplets"]):
                for n in ladder:
                    jobs.append({"domain": "bulk-collections", "kind": k, "what": what, "n": n})
        return jobs

    def expand(self, job):
        kind = job["kind"]
        if job["domain"] == "bulk-collections":
            for v, cls in enumerate(("SphericalDroplet", "DiffuseDroplet", "PerturbedDroplet2D")):
                dim = [3, 1, 2][v]
                spec = {"kind": kind, "dim": dim, "cls": cls, "hetero": False, "build": ["ctor", "append"][v % 2], "info": None, "bulk": {"what": job["what"], "n": job["n"], "seed": 11 * v + job["n"], "modes": 3}}
                first = {"cls": cls, "position": [0.5] * dim, "radius": 1.25}
                if cls != "SphericalDroplet":
                    first["interface_width"] = 0.5
                if cls.startswith("Perturbed"):
                    first["amplitudes"] = [0.1, 0.0, -0.1]
                if kind == "Emulsion":
                    spec["members"] = [[first]]
                elif kind == "DropletTrack":
                    spec["members"], spec["times"] = [[first]], [[-1.0]]
                elif kind == "EmulsionTimeCourse":
                    spec["members"], spec["times"], spec["member_hetero"] = [[first], []], [-2.0, -1.0], False
                else:
                    spec["members"], spec["times"] = [[first], []], [[-1.0], []]
                yield spec
            return

        def dr(cls, z, r, amps, onaxis=True):
            return {"cls": cls, "position": [0.0 if onaxis else 1.5, 0.0, z], "radius": r, "interface_width": 0.5, "amplitudes": amps}

        for modes in (1, 3):
            a1, a2 = [0.1] * modes, [-0.05] * modes
            mixes = [
                [dr("PerturbedDroplet3D", 1.0, 2.0, a1), dr("PerturbedDroplet3DAxisSym", 4.0, 1.0, a2)],
                [dr("PerturbedDroplet3DAxisSym", 1.0, 2.0, a1), dr("PerturbedDroplet3D", 4.0, 1.0, a2, onaxis=False)],
                [dr("PerturbedDroplet3D", 1.0, 2.0, a1, onaxis=False), dr("PerturbedDroplet3D", 2.0, 1.5, a2), dr("PerturbedDroplet3DAxisSym", 4.0, 1.0, a2)],
                [dr("PerturbedDroplet3D", 1.0, 2.0, a1), dr("PerturbedDroplet3D", 4.0, 1.0, a2 + [0.02])],  # same class, other mode count
            ]
            for mix in mixes:
                for build in ("ctor", "append"):
                    spec = {"kind": kind, "dim": 3, "cls": mix[0]["cls"], "hetero": True, "build": build, "info": None}
                    if kind == "Emulsion":
                        spec["members"] = [mix]
                    elif kind == "DropletTrack":
                        spec["members"], spec["times"] = [mix], [[0.5 * k for k in range(len(mix))]]
                    elif kind == "EmulsionTimeCourse":
                        spec["members"], spec["times"], spec["member_hetero"] = [[mix[0]], mix, []], [0.0, 1.0, 2.5], True
                    else:
                        spec["members"], spec["times"] = [[mix[0]], mix], [[0.0], [0.5 * k for k in range(len(mix))]]
                    yield spec

    _dir = None

    def _path(self):
        if self._dir is None or self._pid != os.getpid():
            self._dir = tempfile.mkdtemp(prefix="vf-c08-")
            self._pid = os.getpid()
            import atexit

            atexit.register(shutil.rmtree, self._dir, True)
        return os.path.join(self._dir, "obj.hdf5")

    def cleanup(self):
        if self._dir is not None and getattr(self, "_pid", None) == os.getpid():
            shutil.rmtree(self._dir, ignore_errors=True)
            self._dir = None

    def check(self, spec, ctx: Ctx):
        import droplets
        from droplets import DropletTrackList, Emulsion, EmulsionTimeCourse

        if spec.get("bulk"):
            ctx.cls(f"bulk-{spec['bulk']['what']}>={min(1024, spec['bulk']['n'] // 32 * 32)}")
            spec = expand_bulk(spec)
        kind = spec["kind"]
        members = spec["members"]
        try:
            if kind == "Emulsion":
                obj = Emulsion([T.build_droplet(d) for d in members[0]])
            elif kind == "EmulsionTimeCourse":
                obj = EmulsionTimeCourse(gen.frames_as_given([Emulsion([T.build_droplet(d) for d in m]) for m in members], spec["times"]), gen.times_as_given(spec["times"], members)) if members else EmulsionTimeCourse()
            elif kind == "DropletTrack":
                obj = _track(members[0], spec["times"][0], spec.get("build", "append"))
            else:
                obj = DropletTrackList([_track(m, t, spec.get("build", "append")) for m, t in zip(members, spec["times"])])
        except ValueError:
            # e.g. DropletTrack.append refuses a droplet of another dimension: nothing to write
            ctx.cls(kind, "construction-refused")
            return
        cls_obj = getattr(droplets, kind)
        ndrops = sum(len(m) for m in members)
        ctx.cls(kind, spec["cls"] if not spec["hetero"] else "heterogeneous", f"dim{spec['dim']}")
        has_none = any(d.get("interface_width", 0) is None for m in members for d in m)
        empty_member = len(members) > 1 and any(len(m) == 0 for m in members)
        ctx.nontrivial = ndrops >= 1 and (ndrops >= 2 or empty_member or has_none or spec["cls"].startswith("Perturbed") or spec["dim"] != 2)
        before, tbefore = records(obj, kind)
        path = self._path()
        if not ctx_hash_even({"p": spec}):  # the file name as a pathlib.Path in half of the cases
            import pathlib

            path = pathlib.Path(path)
        # the file of the previous case is deliberately left in place: writing to an existing path must replace its content
        if os.path.exists(path) and ctx_hash_even(spec):
            os.remove(path)
        try:
            if spec.get("info") is not None and kind != "Emulsion":
                obj.to_file(path, info=dict(spec["info"]))
                ctx.cls("with-info")
            else:
                obj.to_file(path)
        except Exception as exc:  # noqa: BLE001 - "writing either succeeds or raises"
            ctx.cls("write-refused:" + type(exc).__name__)
            if not spec["hetero"]:
                ctx.fail(f"write-raises-on-homogeneous:{kind}:{type(exc).__name__}", f"{type(exc).__name__}: {exc}")
            return
        ctx.cls("written")
        after0, _ = records(obj, kind)
        ctx.require(after0 == before, f"write-modified-object:{kind}", "to_file changed the object")
        try:
            back = cls_obj.from_file(path, progress=False) if kind in ("EmulsionTimeCourse", "DropletTrackList") else cls_obj.from_file(path)
        except Exception as exc:  # noqa: BLE001
            ctx.fail(f"read-raises:{kind}:{type(exc).__name__}", f"file written without error cannot be read: {type(exc).__name__}: {exc}")
            return
        ctx.require(type(back) is cls_obj, f"type:{kind}", f"read back {type(back).__name__}")
        after, tafter = records(back, kind)
        if [len(m) for m in after] != [len(m) for m in before]:
            ctx.fail(f"length:{kind}", f"member lengths {[len(m) for m in before]} -> {[len(m) for m in after]}")
            return
        for mi, (ma, mb) in enumerate(zip(before, after)):
            for di, (a, b) in enumerate(zip(ma, mb)):
                if a[0] != b[0]:
                    ctx.fail(f"class:{kind}", f"member {mi} droplet {di}: {a[0]} -> {b[0]}")
                elif a[1] != b[1]:
                    ctx.fail(f"data:{kind}:{a[0]}", f"member {mi} droplet {di}: record bytes differ ({np.frombuffer(a[1])} -> {np.frombuffer(b[1])})")
        ctx.require(tbefore == tafter, f"times:{kind}", f"times {tbefore} -> {tafter}")
        if not ctx.violations:
            try:
                eq = bool(back == obj)
            except Exception as exc:  # noqa: BLE001
                eq = False
            ctx.require(eq, f"library-eq:{kind}", "byte-identical content but `==` is False")
        # --- history: change the object that has just been written (in place), write it again, read it back -------------
        if ctx.violations or ndrops == 0 or spec["hetero"]:
            return
        if kind == "Emulsion":
            holder = obj
        elif kind == "EmulsionTimeCourse":
            holder = next(e for e in obj.emulsions if len(e))
        elif kind == "DropletTrack":
            holder = obj.droplets
        else:
            holder = next(tr for tr in obj if len(tr)).droplets
        pick = spec.get("dim", 0) % len(holder)
        d0 = holder[pick]
        mode = "replace" if (len(holder) >= 2 and ctx_hash_even(spec)) else "setter"
        if mode == "replace":  # item assignment with another member's copy (count unchanged)
            other = holder[(pick + 1) % len(holder)].copy()
            holder[pick] = other
        else:  # attribute setters of the stored droplet
            d0.radius = 0.5 * float(d0.radius) + 1.0 if np.isfinite(0.5 * float(d0.radius) + 1.0) else 1.0
            newpos = np.array(d0.position, float)
            newpos[-1] = 0.25  # only the last coordinate: axisymmetric droplets must stay on the z-axis
            d0.position = newpos
        ctx.cls(f"rewrite-after-{mode}")
        now, tnow = records(obj, kind)
        if now == before:
            return  # the edit did not change anything (e.g. identical members)
        try:
            obj.to_file(path)
            back2 = cls_obj.from_file(path, progress=False) if kind in ("EmulsionTimeCourse", "DropletTrackList") else cls_obj.from_file(path)
        except Exception as exc:  # noqa: BLE001
            ctx.fail(f"rewrite-raises:{kind}:{type(exc).__name__}", f"writing/reading the edited object failed: {type(exc).__name__}: {exc}")
            return
        after2, tafter2 = records(back2, kind)
        ctx.require(after2 == now and tafter2 == tnow, f"rewrite-stale:{kind}", f"object edited in place after a first write ({mode}), written again: the file does not read back as the edited object")


PROP = C08()
