"""C13 - a perturbed droplet's volume, surface, curvature and outline match its shape."""

from __future__ import annotations

import math

import numpy as np
from hypothesis import strategies as st

from vf import gen
from vf import oracles as O
from vf.engine import Ctx, Property

finite = gen.finite


def lam_2d(i):  # amplitude index -> mode number n (pairs sin/cos)
    return i // 2 + 1


def degree_3d(k):  # mode k (1-based) -> degree l
    return int(math.floor(math.sqrt(k)))


@st.composite
def specs(draw):
    cls = draw(st.sampled_from(["PerturbedDroplet2D", "PerturbedDroplet2D", "PerturbedDroplet3D", "PerturbedDroplet3DAxisSym"]))
    regime = draw(st.sampled_from(["first-order", "first-order", "exact", "large", "sphere"]))
    R0 = gen.r6(10 ** draw(st.floats(-1, 1, **finite)))
    extreme_unit = draw(st.integers(0, 4)) == 2
    if extreme_unit:  # very small or very large length units (everything the statement says is scale free)
        R0 = gen.r6(10 ** draw(st.floats(-7, 7, **finite)))
    if cls == "PerturbedDroplet2D":
        n_amp = draw(st.integers(1, 8))
        dim = 2
    elif cls == "PerturbedDroplet3D":
        n_amp = draw(st.sampled_from([1, 3, 5, 8, 8, 15, 24, 24]))
        dim = 3
    else:
        n_amp = draw(st.integers(1, 4))
        dim = 3
    many = draw(st.integers(0, 15)) == 8
    if many:
        # very long amplitude vectors (mode numbers beyond the order of any fixed quadrature or sampling rule), sparsely filled
        n_amp = draw(st.sampled_from({"PerturbedDroplet2D": [33, 64, 130, 255, 256, 300, 400], "PerturbedDroplet3D": [24, 48, 63, 120], "PerturbedDroplet3DAxisSym": [12, 30, 60]}[cls]))  # (longer 3-D vectors: see the fixed sweep; the library integrates their volume for tens of seconds)
    pos = [gen.r6(draw(st.floats(-5, 5, **finite))) if draw(st.booleans()) else 0.0 for _ in range(dim)]
    if extreme_unit:
        pos = [gen.r6(x * R0) for x in pos]  # the centre in the same units (so that differences of coordinates stay resolved)
    if cls == "PerturbedDroplet3DAxisSym":
        pos[0] = pos[1] = 0.0
    # raw amplitude pattern: several simultaneously non-zero modes
    if many:
        raw = [0.0] * n_amp
        for i in draw(st.lists(st.integers(0, n_amp - 1), min_size=0, max_size=2, unique=True)) + [n_amp - 1 - draw(st.integers(0, min(4, n_amp - 1)))]:
            raw[i] = draw(st.sampled_from([-1.0, 1.0])) * draw(st.floats(0.2, 1, **finite))
    elif draw(st.booleans()):
        raw = [draw(st.floats(-1, 1, **finite)) if draw(st.integers(0, 2)) else 0.0 for _ in range(n_amp)]
    else:  # sparse: one to three non-zero modes anywhere, so that whole degrees are skipped
        raw = [0.0] * n_amp
        for i in draw(st.lists(st.integers(0, n_amp - 1), min_size=1, max_size=3, unique=True)):
            raw[i] = draw(st.sampled_from([-1.0, 1.0])) * draw(st.floats(0.2, 1, **finite))
    # (sub-normal raw values would make the normalisation below round to amplitudes of exactly 1, a degenerate shape whose radius
    # function touches zero)
    raw = [x if abs(x) >= 1e-6 else 0.0 for x in raw]
    if not any(raw):
        raw[draw(st.integers(0, n_amp - 1))] = 1.0
    if cls == "PerturbedDroplet2D":
        w = [lam_2d(i) ** 2 + 1 for i in range(n_amp)]
    elif cls == "PerturbedDroplet3D":
        w = [degree_3d(k) * (degree_3d(k) + 1) + 1 for k in range(1, n_amp + 1)]
    else:
        w = [l * (l + 1) + 1 for l in range(1, n_amp + 1)]
    size0 = sum(wi * abs(a) for wi, a in zip(w, raw))
    if regime == "first-order":
        s = 10 ** draw(st.floats(-5, -2, **finite))
    elif regime == "exact":
        s = draw(st.floats(0.01, 0.5, **finite))
    else:
        s = 0.0
    amps = [gen.r6(a * s / size0) for a in raw]
    if regime == "large":  # amplitudes "within bounds": sum |a_k| up to 0.8 keeps the shape star-shaped
        tot = draw(st.floats(0.2, 0.8, **finite))
        if many and cls != "PerturbedDroplet2D":
            # |Y_lm| grows like sqrt((2l+1)/(2 pi)): for high degrees the amplitudes must be smaller for the radius function to stay positive
            lmax = max((degree_3d(k + 1) if cls == "PerturbedDroplet3D" else k + 1) for k, a in enumerate(raw) if a)
            tot = tot / math.sqrt((2 * lmax + 1) / (2 * math.pi))
        amps = [gen.r6(a * tot / sum(abs(x) for x in raw)) for a in raw]
    ndir = 6
    thetas = [gen.r6(draw(st.floats(0.2, math.pi - 0.2, **finite))) for _ in range(ndir)]
    phis = [gen.r6(draw(st.floats(0, 2 * math.pi, **finite))) for _ in range(ndir)]
    return {"cls": cls, "regime": regime, "radius": R0, "position": pos, "amplitudes": amps, "weights": w, "thetas": thetas, "phis": phis, "width": draw(st.sampled_from([None, 0.3])), "res": draw(st.sampled_from([0.3, 0.5, 1.0]))}


def unit(theta, phi):
    return np.stack([np.sin(theta) * np.cos(phi), np.sin(theta) * np.sin(phi), np.cos(theta)], -1)


def series_2d(R0, amps, phi):
    d = np.ones_like(phi)
    for i, a in enumerate(amps):
        n = i // 2 + 1
        d = d + a * (np.sin(n * phi) if i % 2 == 0 else np.cos(n * phi))
    return R0 * d


def series_2d_derivs(R0, amps, phi):
    r = np.ones_like(phi)
    r1 = np.zeros_like(phi)
    r2 = np.zeros_like(phi)
    for i, a in enumerate(amps):
        n = i // 2 + 1
        if i % 2 == 0:
            r, r1, r2 = r + a * np.sin(n * phi), r1 + a * n * np.cos(n * phi), r2 - a * n * n * np.sin(n * phi)
        else:
            r, r1, r2 = r + a * np.cos(n * phi), r1 - a * n * np.sin(n * phi), r2 - a * n * n * np.cos(n * phi)
    return R0 * r, R0 * r1, R0 * r2


def series_axisym(R0, amps, theta):
    from numpy.polynomial import legendre

    d = np.ones_like(theta)
    x = np.cos(theta)
    for l, a in enumerate(amps, 1):
        c = np.zeros(l + 1)
        c[l] = 1
        d = d + a * math.sqrt((2 * l + 1) / (4 * math.pi)) * legendre.legval(x, c)
    return R0 * d


def mean_curvature_numeric(dist_fn, theta, phi, h=1e-3):
    """Mean curvature (positive for a sphere) of the radial surface X = r(theta, phi) * n(theta, phi).

    The unit vector n and its derivatives are analytic; only the derivatives of r are numerical
    (4th-order central differences for the pure ones, 2nd order for the mixed one)."""
    r = dist_fn(theta, phi)

    def d1(f):
        return (-f(2 * h) + 8 * f(h) - 8 * f(-h) + f(-2 * h)) / (12 * h)

    def d2(f):
        return (-f(2 * h) + 16 * f(h) - 30 * f(0.0) + 16 * f(-h) - f(-2 * h)) / (12 * h * h)

    rt = d1(lambda e: dist_fn(theta + e, phi))
    rp = d1(lambda e: dist_fn(theta, phi + e))
    rtt = d2(lambda e: dist_fn(theta + e, phi))
    rpp = d2(lambda e: dist_fn(theta, phi + e))
    rtp = (dist_fn(theta + h, phi + h) - dist_fn(theta + h, phi - h) - dist_fn(theta - h, phi + h) + dist_fn(theta - h, phi - h)) / (4 * h * h)
    st_, ct, sp, cp = np.sin(theta), np.cos(theta), np.sin(phi), np.cos(phi)
    z = np.zeros_like(theta)
    n = np.stack([st_ * cp, st_ * sp, ct], -1)
    nt = np.stack([ct * cp, ct * sp, -st_], -1)
    np_ = np.stack([-st_ * sp, st_ * cp, z], -1)
    ntt = -n
    ntp = np.stack([-ct * sp, ct * cp, z], -1)
    npp = np.stack([-st_ * cp, -st_ * sp, z], -1)
    c = lambda a: a[..., None]
    Xt = c(rt) * n + c(r) * nt
    Xp = c(rp) * n + c(r) * np_
    Xtt = c(rtt) * n + 2 * c(rt) * nt + c(r) * ntt
    Xtp = c(rtp) * n + c(rt) * np_ + c(rp) * nt + c(r) * ntp
    Xpp = c(rpp) * n + 2 * c(rp) * np_ + c(r) * npp
    Nv = np.cross(Xt, Xp)
    Nv = Nv / np.linalg.norm(Nv, axis=-1, keepdims=True)
    E, F, G = (Xt * Xt).sum(-1), (Xt * Xp).sum(-1), (Xp * Xp).sum(-1)
    Lc, Mc, Nc = (Xtt * Nv).sum(-1), (Xtp * Nv).sum(-1), (Xpp * Nv).sum(-1)
    return -(E * Nc - 2 * F * Mc + G * Lc) / (2 * (E * G - F * F))


class C13(Property):
    id = "C13"
    rule = (
        "Hypothesis draws a perturbed droplet of any of the three classes: R0 = 10^U(-1,1), arbitrary centre, 1-8 (2-D), 1-24 (3-D) or "
        "1-4 (axisymmetric) amplitudes with several simultaneously non-zero modes up to degree 4, scaled to a total size "
        "s = sum (lambda_k+1)|a_k| of 10^U(-5,-2) (first-order claims), 0.01-0.5 or plain sum |a_k| of 0.2-0.8 (exact claims) or 0 (sphere limit), and 6 random "
        "directions. Oracles: periodic trapezoid / Gauss-Legendre quadrature of the body bounded by interface_distance, the "
        "documented 2-D and axisymmetric series re-implemented, centre + distance x unit vector, exact planar curvature from "
        "(r, r', r''), mean curvature from the fundamental forms by central differences, sphere formulas. Non-trivial = >= 2 non-zero "
        "modes or R0 outside [0.9, 1.1] or centre != 0; distinct = distinct spec hash."
    )
    assumptions = [
        "first-order claims are judged as |reported - true| R0 <= C s^2 (+1e-7 for the numerical derivatives of the radius function) with C = 3 (2-D), 10 (3-D); a first-order error is >= 10^3 times larger than the bound at s = 1e-3",
        "3-D volume is integrated only for droplets with <= 8 non-zero modes (scipy dblquad in the code under test is slow)",
        "directions are kept 0.2 rad away from the poles where the spherical parametrisation is singular",
    ]

    def budget(self, tier):
        return {"examples": 4000 if tier == "quick" else 80000, "shards": 16}

    def strategy(self, tier):
        return specs()

    # long amplitude vectors with sizeable high modes: a fixed sweep (mode numbers beyond the order of fixed quadrature rules)
    MANY = {"PerturbedDroplet2D": [33, 130, 256, 300, 400], "PerturbedDroplet3D": [48, 120, 224, 440, 624], "PerturbedDroplet3DAxisSym": [12, 30, 60]}

    def exhaustive_jobs(self, tier):
        jobs = [{"domain": "many-modes", "cls": c, "n_amp": n, "variant": v} for c, ns in self.MANY.items() for n in ns for v in range(2)]
        if tier == "quick":  # the library integrates the 3-D volume adaptively, which takes 10-40 s for degrees >= 15: only a few of those
            jobs = [j for j in jobs if j["cls"] != "PerturbedDroplet3D" or (j["n_amp"], j["variant"]) in ((48, 0), (48, 1), (120, 1), (440, 1))]
        return jobs

    def expand(self, job):
        cls, n, v = job["cls"], job["n_amp"], job["variant"]
        raw = [0.0] * n
        raw[n - 1 - 2 * v] = 1.0
        if v:
            raw[n // 3] = -0.6
        if cls == "PerturbedDroplet2D":
            w = [lam_2d(i) ** 2 + 1 for i in range(n)]
            sup = 1.0
        elif cls == "PerturbedDroplet3D":
            w = [degree_3d(k) * (degree_3d(k) + 1) + 1 for k in range(1, n + 1)]
            sup = math.sqrt((2 * degree_3d(n) + 1) / (2 * math.pi))
        else:
            w = [l * (l + 1) + 1 for l in range(1, n + 1)]
            sup = math.sqrt((2 * n + 1) / (2 * math.pi))
        tot = [0.5, 0.3][v] / sup
        amps = [gen.r6(a * tot / sum(abs(x) for x in raw)) for a in raw]
        dim = 2 if cls == "PerturbedDroplet2D" else 3
        pos = [0.0, 0.0, 1.5][:dim] if dim == 3 else [0.5, -2.0]
        yield {"cls": cls, "regime": "large", "radius": [2.5, 0.4][v], "position": pos, "amplitudes": amps, "weights": w, "thetas": [0.3, 0.9, 1.4, 1.9, 2.5, 2.9], "phis": [0.1, 1.0, 2.2, 3.3, 4.4, 5.9], "width": None, "res": 0.5}

    def check(self, spec, ctx: Ctx):
        import droplets.droplets as D

        cls = getattr(D, spec["cls"])
        R0 = spec["radius"]
        pos = np.array(spec["position"], float)
        amps = np.array(spec["amplitudes"], float)
        s = float(sum(w * abs(a) for w, a in zip(spec["weights"], amps)))
        if spec["cls"] != "PerturbedDroplet2D":
            # a droplet of the sibling 3-D class with the same number of modes, queried first, must leave no trace
            try:
                twin = D.PerturbedDroplet3DAxisSym if spec["cls"] == "PerturbedDroplet3D" else D.PerturbedDroplet3D
                tw = twin(np.array([0.0, 0.0, pos[2]]), R0, spec["width"], amps[::-1].copy())
                if twin is D.PerturbedDroplet3D:
                    tw.interface_curvature(np.array([0.7]), np.array([0.3])), tw.interface_distance(np.array([0.7]), np.array([0.3]))
                else:
                    tw.interface_curvature(np.array([0.7])), tw.interface_distance(np.array([0.7]))
                tw.volume, tw.volume_approx
            except Exception:  # noqa: BLE001 - not judged
                pass
        d = cls(gen.as_given(pos, R0, spec["amplitudes"])[0], R0, spec["width"], amps if len(amps) % 2 else [float(a) for a in amps])
        nz = int(np.count_nonzero(amps))
        ctx.cls(spec["cls"], spec["regime"], f"nonzero-modes:{min(nz, 3)}{'+' if nz > 3 else ''}")
        if len(amps) > 30:
            ctx.cls("amplitudes>" + str(max(t for t in (30, 100, 250, 400) if len(amps) > t)))
        ctx.nontrivial = nz >= 2 or not (0.9 <= R0 <= 1.1) or bool(np.any(pos != 0))
        th = np.array(spec["thetas"])
        ph = np.array(spec["phis"])
        two_d = spec["cls"] == "PerturbedDroplet2D"
        axisym = spec["cls"] == "PerturbedDroplet3DAxisSym"
        tol_len = 1e-12 * R0

        if two_d:
            rr = d.interface_distance(ph)
            ctx.require(bool(np.all(np.abs(rr - series_2d(R0, amps, ph)) <= tol_len)), "2d:series", f"interface_distance differs from the documented series by {np.abs(rr - series_2d(R0, amps, ph)).max()}")
            ctx.require(abs(float(d.interface_distance(float(ph[0]))) - rr[0]) <= tol_len, "2d:scalar-arg", "scalar and array arguments disagree")
            P = d.interface_position(ph)
            expP = pos[None, :] + rr[:, None] * np.stack([np.cos(ph), np.sin(ph)], -1)
            ctx.require(P.shape == expP.shape and bool(np.all(np.abs(P - expP) <= 1e-12 * (R0 + np.abs(pos).max()))), "2d:interface-position", f"interface_position differs from centre + distance x direction by {np.abs(P - expP).max() if P.shape == expP.shape else P.shape}")
            # exact: volume and surface by quadrature of the body bounded by interface_distance
            grid = np.linspace(0, 2 * math.pi, 4096, endpoint=False)
            r, r1, r2 = series_2d_derivs(R0, amps, grid)
            rq = d.interface_distance(grid)
            V_true = 0.5 * float(np.sum(rq**2)) * (2 * math.pi / 4096)
            ctx.require(abs(d.volume - V_true) <= 1e-10 * V_true, "2d:volume", f"volume {d.volume} vs quadrature {V_true}")
            if np.all(rq > 0.2 * R0):
                drq = r1  # derivative of the documented series (equality with interface_distance is checked above)
                S_true = float(np.sum(np.sqrt(rq**2 + drq**2))) * (2 * math.pi / 4096)
                # the library documents a "simple approximation to the integral"; it is allowed twice the discretisation error
                # of a 256-node periodic rule (16 x coarser than the reference), which only exceeds 1e-6 for very rough outlines
                S_256 = float(np.sum(np.sqrt(rq[::16] ** 2 + drq[::16] ** 2))) * (2 * math.pi / 256)
                tol_S = max(1e-6 * S_true, 2 * abs(S_256 - S_true))
                if tol_S > 1e-6 * S_true:
                    ctx.cls("2d:surface-tolerance-widened")
                ctx.require(abs(d.surface_area - S_true) <= tol_S, "2d:surface", f"surface_area {d.surface_area} vs quadrature {S_true} (tolerance {tol_S})")
            # volume setter round trip keeps the shape
            d2 = d.copy()
            d2.volume = 2.5 * V_true
            ctx.require(abs(d2.volume - 2.5 * V_true) <= 1e-12 * V_true and np.array_equal(d2.amplitudes, d.amplitudes), "2d:volume-setter", f"set {2.5 * V_true}, read {d2.volume}")
            # ... also when the droplet had no size before (radius exactly 0, amplitudes already set)
            d0 = cls(pos.copy(), 0.0, spec["width"], amps.copy() if len(amps) % 2 else [float(a) for a in amps])
            d0.volume = 1.7 * V_true
            ctx.require(abs(d0.volume - 1.7 * V_true) <= 1e-12 * V_true and abs(d0.radius - R0 * math.sqrt(1.7)) <= 1e-12 * R0, "2d:volume-setter:from-zero-radius", f"a droplet of radius 0 given the volume {1.7 * V_true} reports {d0.volume} (radius {d0.radius})")
            # curvature to first order
            rr0, rr1, rr2 = series_2d_derivs(R0, amps, ph)
            k_true = (rr0**2 + 2 * rr1**2 - rr0 * rr2) / (rr0**2 + rr1**2) ** 1.5
            k_rep = d.interface_curvature(ph)
            if spec["regime"] not in ("exact", "large"):
                err = float(np.max(np.abs(k_rep - k_true))) * R0
                ctx.require(err <= 3 * s * s + 1e-12, "2d:curvature", f"|curvature - true| R0 = {err} > 3 s^2 = {3 * s * s} (s = {s})")
            # outline
            tri = d.get_triangulation(spec["res"] * R0)
            v = np.asarray(tri["vertices"])
            lines = np.asarray(tri["lines"])
            ang = np.arctan2(v[:, 1] - pos[1], v[:, 0] - pos[0])
            dist_v = np.linalg.norm(v - pos, axis=1)
            ctx.require(bool(np.all(np.abs(dist_v - d.interface_distance(ang)) <= 1e-9 * R0)), "2d:triangulation-off-interface", f"vertex off the interface by {np.abs(dist_v - d.interface_distance(ang)).max()}")
            ctx.require(lines.ndim == 2 and lines.shape[1] == 2 and lines.min() >= 0 and lines.max() < len(v), "2d:triangulation-indices", f"line indices out of range ({lines.min()}..{lines.max()} for {len(v)} vertices)")
        else:
            def dist_fn(t, p):
                return np.asarray(d.interface_distance(t) if axisym else d.interface_distance(t, p), float)

            rr = dist_fn(th, ph)
            # the documented series of real spherical harmonics, evaluated by an independent textbook implementation (oracles.py)
            if axisym:
                ser = O.series_axisym(R0, amps, th)
            else:
                ser = O.series_3d(R0, amps, th, ph)
            ctx.require(bool(np.all(np.abs(rr - ser) <= 1e-11 * R0 * (1 + float(np.abs(amps).sum())))), f"{'axisym' if axisym else '3d'}:series-harmonics", f"interface_distance differs from R0 (1 + sum a Y_lm) by {np.abs(rr - ser).max()}")
            if axisym:
                ctx.require(bool(np.all(np.abs(rr - series_axisym(R0, amps, th)) <= tol_len)), "axisym:series", f"interface_distance differs from the documented series by {np.abs(rr - series_axisym(R0, amps, th)).max()}")
                # the same shape expressed with the general 3-D class (m = 0 modes only)
                full = np.zeros(max(l * (l + 1) for l in range(1, len(amps) + 1)))
                for l, a in enumerate(amps, 1):
                    full[l * (l + 1) - 1] = a
                d3 = D.PerturbedDroplet3D(pos, R0, spec["width"], full)
                ctx.require(bool(np.all(np.abs(d3.interface_distance(th, ph) - rr) <= tol_len)), "axisym:differs-from-3d-m0", "axisymmetric droplet and 3-D droplet with the same m=0 amplitudes have different shapes")
            # the poles themselves (polar angle exactly 0 and exactly pi, any azimuth) and the equator: distance against the series,
            # position = centre + distance x direction (the north and south pole lie on opposite sides of the droplet)
            th_p = np.array([0.0, math.pi, 0.0, math.pi, math.pi / 2])
            ph_p = np.array([0.0, 0.0, float(ph[0]), float(ph[1]), float(ph[2])])
            rr_p = dist_fn(th_p, ph_p)
            ser_p = O.series_axisym(R0, amps, th_p) if axisym else O.series_3d(R0, amps, th_p, ph_p)
            kind3 = "axisym" if axisym else "3d"
            if ctx.require(np.shape(rr_p) == (5,) and bool(np.all(np.abs(rr_p - ser_p) <= 1e-11 * R0 * (1 + float(np.abs(amps).sum())))), f"{kind3}:series-harmonics:poles", f"interface_distance at the poles / equator {rr_p} differs from the series {ser_p}"):
                P_p = np.asarray(d.interface_position(th_p, ph_p), float)
                expP_p = pos[None, :] + ser_p[:, None] * unit(th_p, ph_p)
                ctx.require(P_p.shape == expP_p.shape and bool(np.all(np.abs(P_p - expP_p) <= 1e-11 * (R0 + np.abs(pos).max()))), f"{kind3}:interface-position:poles", f"interface_position at the poles differs from centre + distance x direction by {np.abs(P_p - expP_p).max() if P_p.shape == expP_p.shape else P_p.shape}")
            P = d.interface_position(th, ph)
            expP = pos[None, :] + rr[:, None] * unit(th, ph)
            ctx.require(P.shape == expP.shape and bool(np.all(np.abs(P - expP) <= 1e-12 * (R0 + np.abs(pos).max()))), f"{'axisym' if axisym else '3d'}:interface-position", f"interface_position differs from centre + distance x direction by {np.abs(P - expP).max() if P.shape == expP.shape else P.shape}")
            H_true = mean_curvature_numeric(dist_fn, th, ph)
            H_rep = np.asarray(d.interface_curvature(th) if axisym else d.interface_curvature(th, ph), float)
            H_rep = np.broadcast_to(H_rep, th.shape)
            if spec["regime"] not in ("exact", "large"):
                err = float(np.max(np.abs(H_rep - H_true))) * R0
                ctx.require(err <= 10 * s * s + 1e-7, f"{'axisym' if axisym else '3d'}:curvature", f"|curvature - true| R0 = {err} > 10 s^2 + 1e-7 = {10 * s * s + 1e-7} (s = {s}, R0 = {R0})")
            # equivalent ways of passing the same directions: tables of angles (2-d arrays, also Fortran-ordered / transposed
            # views), Python floats, lists; for the 3-D class the azimuth may be omitted, which the documentation defines as 0
            n2 = (len(th) // 2) * 2
            for tag, conv in (("2d-table", lambda a: a[:n2].reshape(2, -1)), ("fortran-table", lambda a: np.asfortranarray(a[:n2].reshape(2, -1))), ("transposed-view", lambda a: a[:n2].reshape(-1, 2).T)):
                t2, p2 = conv(th), conv(ph)
                ref_d = conv(rr)
                ref_H = conv(H_rep)
                got_d = np.asarray(d.interface_distance(t2) if axisym else d.interface_distance(t2, p2), float)
                got_H = np.asarray(d.interface_curvature(t2) if axisym else d.interface_curvature(t2, p2), float)
                okd = got_d.shape == ref_d.shape and bool(np.all(np.abs(got_d - ref_d) <= tol_len))
                okH = np.broadcast_to(got_H, ref_H.shape).shape == ref_H.shape and bool(np.all(np.abs(np.broadcast_to(got_H, ref_H.shape) - ref_H) <= 1e-12 * (np.abs(ref_H) + 1 / R0)))
                ctx.require(okd and okH, f"{'axisym' if axisym else '3d'}:angle-representation:{tag}", f"angles passed as a {tag} give another distance / curvature table than the same angles passed one by one")
            d_scalar = float(d.interface_distance(float(th[0])) if axisym else d.interface_distance(float(th[0]), float(ph[0])))
            ctx.require(abs(d_scalar - rr[0]) <= tol_len, f"{'axisym' if axisym else '3d'}:scalar-arg", "scalar and array arguments disagree")
            if not axisym:
                zero = np.zeros_like(th)
                for name in ("interface_distance", "interface_curvature"):
                    f_ = getattr(d, name)
                    a_, b_ = np.asarray(f_(th), float), np.asarray(f_(th, zero), float)
                    ctx.require(np.broadcast_to(a_, th.shape).shape == th.shape and bool(np.all(np.abs(np.broadcast_to(a_, th.shape) - np.broadcast_to(b_, th.shape)) <= 1e-12 * (np.abs(np.broadcast_to(b_, th.shape)) + (R0 if name == "interface_distance" else 1 / R0)))), f"3d:{name}:omitted-azimuth", f"{name}(theta) differs from {name}(theta, 0)")
            # volume (Gauss-Legendre x trapezoid) - exact claim and first-order claim for volume_approx
            xg, wg = np.polynomial.legendre.leggauss(48)
            tg = np.arccos(xg)
            pg = np.linspace(0, 2 * math.pi, 96, endpoint=False)
            TT, PP = np.meshgrid(tg, pg, indexing="ij")
            RR = dist_fn(TT.ravel(), PP.ravel()).reshape(TT.shape)
            V_true = float(np.sum(wg[:, None] * RR**3 / 3) * (2 * math.pi / 96))
            Va = d.volume_approx
            ctx.require(abs(Va - V_true) <= 10 * R0**3 * s * s + 1e-9 * R0**3, f"{'axisym' if axisym else '3d'}:volume-approx", f"volume_approx {Va} vs true {V_true}: diff {abs(Va - V_true)} > 10 R0^3 s^2 = {10 * R0**3 * s * s}")
            if not axisym and nz <= 8:
                ctx.cls("3d-volume-integrated")
                ctx.require(abs(d.volume - V_true) <= 1e-6 * V_true, "3d:volume", f"volume {d.volume} vs quadrature {V_true}")
            tri = d.get_triangulation(spec["res"] * R0 * 2)
            v = np.asarray(tri["vertices"])
            cells = np.asarray(tri["triangles"])
            rel = v - pos
            dist_v = np.linalg.norm(rel, axis=1)
            tv = np.arccos(np.clip(rel[:, 2] / dist_v, -1, 1))
            pv = np.arctan2(rel[:, 1], rel[:, 0])
            ctx.require(bool(np.all(np.abs(dist_v - dist_fn(tv, pv)) <= 1e-9 * R0)), f"{'axisym' if axisym else '3d'}:triangulation-off-interface", f"vertex off the interface by {np.abs(dist_v - dist_fn(tv, pv)).max()} (R0 = {R0})")
            ctx.require(cells.ndim == 2 and cells.shape[1] == 3 and cells.min() >= 0 and cells.max() < len(v), "3d:triangulation-indices", "triangle indices out of range")

        # sphere limit
        if spec["regime"] == "sphere":
            import droplets

            ref = droplets.DiffuseDroplet(pos, R0, spec["width"])
            dim = 2 if two_d else 3
            if two_d:
                ctx.require(abs(d.volume - ref.volume) <= 1e-12 * ref.volume and abs(d.surface_area - ref.surface_area) <= 1e-9 * ref.surface_area, "sphere-limit:2d-volume-surface", f"{d.volume},{d.surface_area} vs {ref.volume},{ref.surface_area}")
                kk = d.interface_curvature(ph)
                ctx.require(np.shape(kk) == ph.shape and bool(np.all(np.abs(kk - 1 / R0) <= 1e-12 / R0)), "sphere-limit:curvature", f"{kk} vs {1 / R0}")
                ctx.require(bool(np.allclose(d.interface_position(ph), ref.interface_position(ph), rtol=1e-12, atol=1e-12 * R0)), "sphere-limit:positions", "positions differ from the spherical droplet")
            else:
                ctx.require(abs(d.volume_approx - ref.volume) <= 1e-12 * ref.volume, "sphere-limit:3d-volume", f"{d.volume_approx} vs {ref.volume}")
                kk = np.asarray(d.interface_curvature(th) if axisym else d.interface_curvature(th, ph))
                ctx.require(bool(np.all(np.abs(kk - 1 / R0) <= 1e-12 / R0)), "sphere-limit:curvature", f"{kk} vs {1 / R0}")
                ctx.require(bool(np.allclose(d.interface_position(th, ph), ref.interface_position(th, ph), rtol=1e-12, atol=1e-12 * R0)), "sphere-limit:positions", "positions differ from the spherical droplet")
            from pde import UnitGrid

            g = UnitGrid([6] * dim)
            dd = cls(np.full(dim, 2.7) if not axisym else np.array([0, 0, 2.7]), 1.9, spec["width"], amps)
            rf = droplets.DiffuseDroplet(dd.position, 1.9, spec["width"])
            ctx.require(bool(np.allclose(dd.get_phase_field(g).data, rf.get_phase_field(g).data, rtol=0, atol=1e-12)), "sphere-limit:rendered-field", "rendered field differs from the diffuse droplet")


PROP = C13()
