"""C10 - overlap removal leaves a separated subset; distance queries agree."""

from __future__ import annotations

import itertools

import numpy as np
from hypothesis import strategies as st

from vf import gen
from vf import oracles as O
from vf.engine import Ctx, Property

finite = gen.finite


@st.composite
def emulsion_specs(draw):
    dim = draw(st.integers(1, 3))
    cls = draw(st.sampled_from(["SphericalDroplet", "DiffuseDroplet"]))
    use_grid = draw(st.booleans())
    L = [gen.r6(10 ** draw(st.floats(-1, 1.5, **finite))) for _ in range(dim)]
    origin = [gen.r6(l * draw(st.floats(-3, 3, **finite))) for l in L]
    periodic = [draw(st.booleans()) for _ in range(dim)]
    n = draw(st.integers(0, 8))
    lattice = draw(st.booleans())  # lattice placement -> exact ties in radius and distance
    rbase = min(L) * draw(st.sampled_from([0.05, 0.15, 0.3, 0.6]))
    drops = []
    for _ in range(n):
        if lattice:
            pos = [origin[a] + L[a] * draw(st.integers(-4, 8)) / 4 for a in range(dim)]
            r = rbase * draw(st.sampled_from([0, 0.5, 1, 1, 2]))
        else:
            pos = [gen.r6(origin[a] + L[a] * draw(st.floats(-1, 2, **finite))) for a in range(dim)]
            r = gen.r6(rbase * draw(st.floats(0, 2.5, **finite)))
        drops.append({"position": [float(x) for x in pos], "radius": float(r)})
    md = gen.r6(rbase * draw(st.sampled_from([0, 0, -1.0, -0.3, 0.3, 1.0, 3.0])))
    if n >= 2 and not lattice and draw(st.integers(0, 2)) == 0:
        # strongly polydisperse variant: every droplet gets a tiny satellite just outside its surface, so that the neighbour
        # with the nearest *centre* is the harmless satellite while a farther, larger droplet may still be too close
        eps = 0.02 * rbase
        host = drops[: max(2, n // 2)]
        drops = []
        for d in host:
            drops.append(d)
            u = np.array([draw(st.floats(-1, 1, **finite)) for _ in range(dim)])
            u = u / np.linalg.norm(u) if np.linalg.norm(u) > 1e-6 else np.eye(dim)[0]
            gap = max(md, 0.0) + eps * draw(st.sampled_from([0.5, 1.0, 3.0]))
            sat = np.array(d["position"]) + u * (d["radius"] + eps + gap)
            drops.append({"position": [gen.r6(float(x)) for x in sat], "radius": gen.r6(eps)})
    if not lattice and draw(st.integers(0, 5)) == 0:
        # constructed "hidden overlap": a large and a medium droplet that are too close (surface to surface) although the neighbour
        # with the nearest centre of every droplet - a tiny satellite placed on the far side - keeps its distance
        eps = 0.02 * rbase
        gap = max(md, 0.0) + eps * draw(st.sampled_from([0.5, 1.0, 3.0]))
        R = rbase * draw(st.floats(1.0, 2.5, **finite))
        rm = eps + gap + rbase * draw(st.floats(0.2, 1.0, **finite))
        ov = draw(st.floats(0.05, 0.9, **finite)) * (rm - eps - gap) - md  # surface distance big-medium = -ov < md
        u = np.array([draw(st.floats(-1, 1, **finite)) for _ in range(dim)])
        u = u / np.linalg.norm(u) if np.linalg.norm(u) > 1e-6 else np.eye(dim)[0]
        p0 = np.array([origin[a] + L[a] * draw(st.floats(-1, 2, **finite)) for a in range(dim)])
        pm = p0 + u * (R + rm - ov)
        quad = [(p0, R), (p0 - u * (R + eps + gap), eps), (pm, rm), (pm + u * (rm + eps + gap), eps)]
        order = draw(st.permutations(range(4)))
        drops = [{"position": [gen.r6(float(x)) for x in quad[i][0]], "radius": gen.r6(float(quad[i][1]))} for i in order]
    if not use_grid and drops and draw(st.integers(0, 4)) == 0:
        # the whole emulsion far away from the origin: coordinates much larger than the separations (differences of the
        # coordinates are still exact to ~1e-16 x |coordinate|, which is what the tolerances below are scaled with)
        far = [float(draw(st.sampled_from([-1.0, 1.0])) * 10.0 ** draw(st.integers(5, 8)) * max(L)) for _ in range(dim)]
        drops = [{"position": [float(x + f) for x, f in zip(d["position"], far)], "radius": d["radius"]} for d in drops]
    spec = {"kind": "emulsion", "dim": dim, "cls": cls, "droplets": drops, "min_distance": md}
    if use_grid:
        spec["grid"] = {"origin": origin, "shape": [4] * dim, "spacing": [l / 4 for l in L], "periodic": periodic}
    return spec


@st.composite
def random_specs(draw):
    fam = draw(st.sampled_from(["bounds", "cart", "cart", "polar", "spherical", "cyl"]))
    spec = {"kind": "from_random", "family": fam, "seed": draw(st.integers(0, 2**32 - 1)), "num": draw(st.integers(0, 20)), "remove": draw(st.booleans())}
    if fam == "bounds":
        dim = draw(st.integers(1, 3))
        b = []
        for _ in range(dim):
            lo = gen.r6(draw(st.floats(-50, 50, **finite)))
            b.append([lo, lo + gen.r6(10 ** draw(st.floats(-1, 1.5, **finite)))])
        spec["bounds"] = b
        size = min(x[1] - x[0] for x in b)
    elif fam == "cart":
        g = draw(gen.cart_grids(max_shape=(8, 8, 8), min_shape=1))
        spec["grid"] = g
        size = min(s * d for s, d in zip(g["shape"], g["spacing"]))
    elif fam in ("polar", "spherical"):
        spec["grid"] = {"n": draw(st.integers(1, 8)), "dr": gen.r6(10 ** draw(st.floats(-1, 1, **finite)))}
        size = spec["grid"]["n"] * spec["grid"]["dr"]
    else:
        spec["grid"] = draw(gen.cyl_grids(max_shape=(6, 8)))
        size = min(spec["grid"]["nr"] * spec["grid"]["dr"], spec["grid"]["nz"] * spec["grid"]["dz"])
    r0 = gen.r6(size * draw(st.floats(0, 0.3, **finite)))
    if draw(st.integers(0, 4)) == 2:  # droplets that are larger than the region they are placed in (only their centres lie inside)
        r0 = gen.r6(size * draw(st.floats(0.5, 1.5, **finite)))
    if draw(st.booleans()):
        spec["radius"] = r0
    else:
        spec["radius"] = [r0, gen.r6(r0 + size * draw(st.floats(0, 0.3, **finite)))]
    spec["cls"] = draw(st.sampled_from(["SphericalDroplet", "DiffuseDroplet"]))
    return spec


def bulk_emulsion_spec(n, seed, use_grid):
    """a large polydisperse emulsion (counts beyond block sizes / pre-selection thresholds), a pure function of the arguments"""
    rng = np.random.default_rng([n, seed, int(use_grid)])
    dim = 1 + (n + seed) % 3
    edge = 4.0 * n ** (1.0 / dim) if dim > 1 else 2.5 * n
    origin = [gen.r6(float(rng.uniform(-50, 50))) for _ in range(dim)]
    drops = [{"position": [gen.r6(origin[a] + float(rng.uniform(0, edge))) for a in range(dim)], "radius": gen.r6(float(rng.uniform(0.3, 1.5)))} for _ in range(n)]
    spec = {"kind": "emulsion", "dim": dim, "cls": ["SphericalDroplet", "DiffuseDroplet"][seed % 2], "droplets": drops, "min_distance": [0.0, 0.3, -0.3][seed % 3], "bulk": n}
    if use_grid:
        spec["grid"] = {"origin": origin, "shape": [4] * dim, "spacing": [edge / 4] * dim, "periodic": [bool((seed + a) % 2 == 0) for a in range(dim)]}
    return spec


LATTICE_RADII = [0.5, 1.0]  # dyadic: touching pairs have surface distance exactly 0


class C10(Property):
    id = "C10"
    rule = (
        "Hypothesis builds emulsions of 0-8 Spherical/Diffuse droplets in 1-3 D (random or lattice placement with exact ties in radius "
        "and distance, positions also outside the box, radius 0), a minimal distance of either sign, and optionally a Cartesian grid "
        "with any periodicity mask; plus Emulsion.from_random requests on bounds and on all grid families. Exhaustive: every ordered "
        "sequence of <= 3 (thorough 4) droplets on a 1-D lattice of 5 sites with radii {0.5, 1.0} (all arithmetic exact, so touching pairs and distances equal to the minimal distance are judged without tolerance) x min_distance {-0.5,0,0.5} x "
        "{no grid, periodic grid}. Oracle: minimal-image metric re-implemented; post-conditions of remove_overlapping (separation, "
        "identity and order of survivors, justification of every removal, strictly largest survives, idempotence) and definitions of "
        "get_pairwise_distances / overlaps / get_neighbor_distances, asked of one emulsion object before and again after the removal. Non-trivial = a droplet was removed, or >= 3 droplets with tied "
        "radii, or a periodic distance that differs from the Euclidean one; distinct = distinct spec hash."
    )
    assumptions = [
        "tolerances: distances rtol 1e-12 (+1e-9 x scale slack for separation/justification), overlap equivalence skipped when |surface distance| <= 1e-9 x scale",
        "get_neighbor_distances(True) is compared with the surface distance to any centre-nearest neighbour (ties, including exactly coincident centres)",
    ]

    def budget(self, tier):
        return {"examples": 6000 if tier == "quick" else 150000, "shards": 10 if tier == "quick" else 16}

    def strategy(self, tier):
        return st.one_of(emulsion_specs(), emulsion_specs(), emulsion_specs(), random_specs())

    def exhaustive_jobs(self, tier):
        jobs = []
        maxlen = 3 if tier == "quick" else 4
        for per in (None, True):
            for md in (-0.5, 0.0, 0.5):
                for first in range(5):
                    jobs.append({"domain": "lattice-1d", "periodic": per, "min_distance": md, "first_site": first, "maxlen": maxlen})
        for n in ([33, 129, 257, 300] if tier == "quick" else [33, 129, 257, 300, 520, 1030]):
            for use_grid in (False, True):
                for seed in range(2 if n < 600 else 1):
                    jobs.append({"domain": "bulk-emulsions", "bulk": n, "seed": seed, "grid": use_grid})
        return jobs

    def expand(self, job):
        if "bulk" in job:
            yield bulk_emulsion_spec(job["bulk"], job["seed"], job["grid"])
            return
        combos = [(s, r) for s in range(5) for r in LATTICE_RADII]
        for n in range(1, job["maxlen"] + 1):
            for seq in itertools.product(combos, repeat=n):
                if seq[0][0] != job["first_site"]:
                    continue
                spec = {
                    "kind": "emulsion",
                    "dim": 1,
                    "cls": "SphericalDroplet",
                    "droplets": [{"position": [s + 0.5], "radius": r} for s, r in seq],
                    "min_distance": job["min_distance"],
                    "exact": True,
                }
                if job["periodic"]:
                    spec["grid"] = {"origin": [0.0], "shape": [5], "spacing": [1.0], "periodic": [True]}
                yield spec

    # ------------------------------------------------------------------------------------
    def check(self, spec, ctx: Ctx):
        if spec["kind"] == "emulsion":
            self._emulsion(spec, ctx)
        else:
            self._random(spec, ctx)

    def _emulsion(self, spec, ctx):
        import droplets
        from droplets import Emulsion

        cls = getattr(droplets, spec["cls"])
        dim = spec["dim"]
        ds = spec["droplets"]
        n = len(ds)
        if "grid" in spec:
            geom, grid = gen.build_cart(spec["grid"])
        else:
            geom, grid = O.CartGeom([0.0] * dim, [1] * dim, [1.0] * dim, [False] * dim), None
        objs = [cls(*gen.as_given(d["position"], d["radius"], [d, k])) for k, d in enumerate(ds)]
        em = Emulsion(objs, copy=False)
        P = np.array([d["position"] for d in ds], float).reshape(n, dim)
        R = np.array([d["radius"] for d in ds], float)
        scale = float(max(np.abs(P).max() if n else 1.0, R.max() if n else 1.0, 1e-300))
        D = np.zeros((n, n))
        Deuc = np.zeros((n, n))
        for i in range(n):
            D[i] = np.linalg.norm(geom.min_image(P[i] - P), axis=1)
            Deuc[i] = np.linalg.norm(P[i] - P, axis=1)
            D[i, i] = Deuc[i, i] = 0.0
        if spec.get("bulk"):
            ctx.cls("bulk>" + str(max(t for t in (32, 128, 256, 512, 1024) if n > t)))
        Ssurf = D - R[:, None] - R[None, :]
        ctx.cls(f"dim{dim}", "grid" if grid is not None else "nogrid", f"n{min(n, 4)}{'+' if n > 4 else ''}")
        periodic_matters = grid is not None and bool(np.any(np.abs(D - Deuc) > 1e-9 * scale))
        if periodic_matters:
            ctx.cls("periodic-image-used")
        # --- distance queries ------------------------------------------------------------
        for sub in (False, True):
            M = em.get_pairwise_distances(subtract_radius=sub, grid=grid)
            exp = Ssurf.copy() if sub else D
            if sub:
                np.fill_diagonal(exp, 0.0)
            ok = isinstance(M, np.ndarray) and M.shape == (n, n)
            if not ctx.require(ok, "pairwise:shape", f"shape {getattr(M, 'shape', None)} for {n} droplets"):
                return
            ctx.require(np.array_equal(M, M.T), "pairwise:asymmetric", "distance matrix not symmetric")
            ctx.require(bool(np.all(np.diag(M) == 0)), "pairwise:diagonal", "diagonal not zero")
            ctx.require(bool(np.all(np.abs(M - exp) <= 1e-12 * scale)), f"pairwise:value:sub={sub}", f"matrix differs from the oracle by {np.abs(M - exp).max() if n else 0}")
            if n:  # the caller owns the result: writing into it must not change what the next call returns
                keep = M.copy()
                try:
                    M[...] = -5.0
                except ValueError:
                    pass
                ctx.require(np.array_equal(em.get_pairwise_distances(subtract_radius=sub, grid=grid), keep), "pairwise:result-aliases-internal-state", "after writing into the returned matrix the same query returns something else")
        pairs = [(i, j) for i in range(n) for j in range(n)] if n <= 40 else [tuple(int(x) for x in ij) for ij in np.random.default_rng(n).integers(0, n, (3000, 2))]
        for i, j in pairs:
                if i != j and (spec.get("exact") or abs(Ssurf[i, j]) > 1e-9 * scale):
                    ov = objs[i].overlaps(objs[j], grid=grid) if grid is not None else objs[i].overlaps(objs[j])
                    ctx.require(bool(ov) == bool(Ssurf[i, j] < 0), "overlaps:disagrees", f"{objs[i]} overlaps {objs[j]} = {ov}, surface distance {Ssurf[i, j]}")
        nd = em.get_neighbor_distances(False) if n else em.get_neighbor_distances()
        if n == 0:
            ctx.require(len(nd) == 0, "neighbor:empty", f"{nd}")
        elif n == 1:
            ctx.require(len(nd) == 1 and np.isnan(nd[0]), "neighbor:single", f"{nd}")
        else:
            E = Deuc.copy()
            np.fill_diagonal(E, np.inf)
            ctx.require(bool(np.all(np.abs(nd - E.min(axis=1)) <= 1e-12 * scale)), "neighbor:value", f"{nd} vs {E.min(axis=1)}")
            coincident = int(max((E == 0).sum(axis=1))) + 1 if bool(np.any(E == 0)) else 1
            if coincident > 1:
                ctx.cls(f"coincident-centres:{min(coincident, 3)}{'+' if coincident > 3 else ''}")
            nds = em.get_neighbor_distances(True)
            for i in range(n):
                near = np.flatnonzero(E[i] <= E[i].min() * (1 + 1e-12))
                cands = [E[i, j] - R[i] - R[j] for j in near]
                tag = ":coincident>=3" if coincident >= 3 else ""
                ctx.require(any(abs(nds[i] - c) <= 1e-12 * scale for c in cands), "neighbor:surface" + tag, f"droplet {i}: {nds[i]} not in {cands}")
        # --- the same queries after the droplets were linked to one data array and re-ordered in place ----------------------
        if n >= 2 and not ctx.violations:
            em_l = Emulsion(list(objs), copy=False)
            try:
                em_l.get_linked_data()
            except Exception:  # noqa: BLE001 - linking is C20's subject; here it only prepares the emulsion
                em_l = None
            if em_l is not None:
                em_l.reverse()
                nd_l = em_l.get_neighbor_distances(False)
                E_r = Deuc[::-1, ::-1].copy()
                np.fill_diagonal(E_r, np.inf)
                ctx.require(len(nd_l) == n and bool(np.all(np.abs(nd_l - E_r.min(axis=1)) <= 1e-12 * scale)), "neighbor:value:linked-reordered", f"after get_linked_data() and reverse(): {nd_l} vs row minima {E_r.min(axis=1)}")
                M_l = em_l.get_pairwise_distances(grid=grid)
                ctx.require(bool(np.all(np.abs(M_l - D[::-1, ::-1]) <= 1e-12 * scale)), "pairwise:value:linked-reordered", "distance matrix after get_linked_data() and reverse() is not the reversed matrix")
                em_l.reverse()
        # --- overlap removal -------------------------------------------------------------
        md = spec["min_distance"]
        slack = 0.0 if spec.get("exact") else 1e-9 * scale
        em2 = em  # the same object that answered the distance queries above (state kept between calls must stay consistent)
        ret = em2.remove_overlapping(md, grid=grid) if grid is not None else em2.remove_overlapping(md)
        ctx.require(ret is None, "remove:return", "remove_overlapping returned something")
        idx = []
        pos_in_orig = 0
        ok_identity = True
        for d in em2:
            found = None
            for k in range(pos_in_orig, n):
                if objs[k] is d:
                    found = k
                    break
            if found is None:
                ok_identity = False
                break
            idx.append(found)
            pos_in_orig = found + 1
        if not ctx.require(ok_identity, "remove:identity-or-order", "survivors are not the original objects in their original order"):
            return
        for o, d in zip(objs, ds):
            ctx.require(o.radius == d["radius"] and np.array_equal(o.position, np.array(d["position"], float)), "remove:mutated", "a droplet was changed")
        removed = [k for k in range(n) if k not in idx]
        if removed:
            ctx.cls("removed")
        ties = n >= 3 and len(set(R.tolist())) < n
        if ties:
            ctx.cls("tied-radii")
        ctx.nontrivial = bool(removed) or ties or periodic_matters
        for a in range(len(idx)):
            for b in range(a + 1, len(idx)):
                ctx.require(Ssurf[idx[a], idx[b]] >= md - slack, "remove:still-too-close", f"survivors {idx[a]},{idx[b]}: surface distance {Ssurf[idx[a], idx[b]]} < {md}")
        for k in removed:
            just = any(j != k and R[j] >= R[k] and Ssurf[k, j] < md + slack for j in range(n))
            ctx.require(just, "remove:unjustified", f"droplet {k} (r={R[k]}) removed although no at-least-as-large droplet is closer than {md}")
        if n >= 1:
            kmax = int(np.argmax(R))
            if all(R[kmax] > R[j] for j in range(n) if j != kmax):
                ctx.require(kmax in idx, "remove:largest-removed", f"strictly largest droplet {kmax} was removed")
        # the distance queries asked again of the same, now smaller emulsion
        m = len(idx)
        if removed:
            for sub in (False, True):
                M2 = em2.get_pairwise_distances(subtract_radius=sub, grid=grid)
                exp2 = (Ssurf if sub else D)[np.ix_(idx, idx)].copy()
                np.fill_diagonal(exp2, 0.0)
                ok2 = isinstance(M2, np.ndarray) and M2.shape == (m, m) and bool(np.all(np.abs(M2 - exp2) <= 1e-12 * scale))
                ctx.require(ok2, f"after-removal:pairwise:sub={sub}", f"distance matrix of the {m} survivors differs from the oracle")
            try:
                nd2 = em2.get_neighbor_distances(False)
                nds2 = em2.get_neighbor_distances(True)
            except Exception as exc:  # noqa: BLE001
                ctx.fail("after-removal:neighbor-raises", f"get_neighbor_distances after remove_overlapping raised {type(exc).__name__}: {exc}")
                nd2 = nds2 = None
            if nd2 is not None:
                if m == 0:
                    ctx.require(len(nd2) == 0, "after-removal:neighbor", f"{nd2}")
                elif m == 1:
                    ctx.require(len(nd2) == 1 and np.isnan(nd2[0]), "after-removal:neighbor", f"{nd2}")
                else:
                    E2 = Deuc[np.ix_(idx, idx)].copy()
                    np.fill_diagonal(E2, np.inf)
                    ok_nd = len(nd2) == m and bool(np.all(np.abs(nd2 - E2.min(axis=1)) <= 1e-12 * scale))
                    ctx.require(ok_nd, "after-removal:neighbor", f"neighbour distances of the survivors {nd2} vs row minima {E2.min(axis=1)}")
                    if ok_nd and len(nds2) == m:
                        for a in range(m):
                            near = np.flatnonzero(E2[a] <= E2[a].min() * (1 + 1e-12))
                            cands = [E2[a, b] - R[idx[a]] - R[idx[b]] for b in near]
                            ctx.require(any(abs(nds2[a] - c) <= 1e-12 * scale for c in cands), "after-removal:neighbor-surface", f"survivor {a}: {nds2[a]} not in {cands}")
        before = list(em2)
        em2.remove_overlapping(md, grid=grid) if grid is not None else em2.remove_overlapping(md)
        ctx.require(len(em2) == len(before) and all(x is y for x, y in zip(em2, before)), "remove:not-idempotent", "second call removed more droplets")

    def _random(self, spec, ctx):
        import droplets
        from droplets import Emulsion

        cls = getattr(droplets, spec["cls"])
        fam = spec["family"]
        if fam == "bounds":
            target = [tuple(b) for b in spec["bounds"]]
            dim = len(target)
            grid = None
        elif fam == "cart":
            _, grid = gen.build_cart(spec["grid"])
        elif fam == "polar":
            from pde import PolarSymGrid

            grid = PolarSymGrid(spec["grid"]["n"] * spec["grid"]["dr"], spec["grid"]["n"])
        elif fam == "spherical":
            from pde import SphericalSymGrid

            grid = SphericalSymGrid(spec["grid"]["n"] * spec["grid"]["dr"], spec["grid"]["n"])
        else:
            grid = gen.build_cyl(spec["grid"])
        if grid is not None:
            target = grid
            dim = grid.dim
        radius = spec["radius"] if not isinstance(spec["radius"], list) else tuple(spec["radius"])
        r0, r1 = (radius, radius) if not isinstance(radius, tuple) else radius

        def make():
            return Emulsion.from_random(spec["num"], target, radius, remove_overlapping=spec["remove"], droplet_class=cls, rng=np.random.default_rng(spec["seed"]))

        em = make()
        ctx.cls("from_random", f"family:{fam}", f"remove:{spec['remove']}")
        ctx.nontrivial = spec["num"] >= 2
        ctx.require(isinstance(em, Emulsion), "random:type", f"{type(em).__name__}")
        ctx.require(len(em) <= spec["num"], "random:too-many", f"{len(em)} > {spec['num']}")
        if not spec["remove"]:
            ctx.require(len(em) == spec["num"], "random:count", f"{len(em)} != {spec['num']} without removal")
        for d in em:
            ctx.require(type(d) is cls and d.dim == dim, "random:class", f"{type(d).__name__} dim {d.dim}")
            ctx.require(r0 * (1 - 1e-12) <= d.radius <= r1 * (1 + 1e-12), "random:radius", f"radius {d.radius} outside [{r0},{r1}]")
            p = np.asarray(d.position, float)
            if grid is None:
                inside = all(b[0] <= x <= b[1] for x, b in zip(p, spec["bounds"]))
            else:
                inside = bool(grid.contains_point(p, coords="cartesian"))
            ctx.require(inside, f"random:outside:{fam}", f"position {p} outside the requested region")
        if spec["remove"]:
            for i in range(len(em)):
                for j in range(i + 1, len(em)):
                    dd = float(np.linalg.norm(np.asarray(em[i].position) - np.asarray(em[j].position)))
                    ctx.require(dd >= em[i].radius + em[j].radius - 1e-9 * max(dd, 1e-300), "random:overlap", f"droplets {i},{j} overlap")
        em_b = make()
        same = len(em) == len(em_b) and all(type(x) is type(y) and x.data.tobytes() == y.data.tobytes() for x, y in zip(em, em_b))
        ctx.require(same, "random:not-reproducible", "same seed gave a different emulsion")


PROP = C10()
