"""C07 - tracks follow droplet identity."""

from __future__ import annotations

import numpy as np
from hypothesis import strategies as st

from vf import gen
from vf import tracking as T
from vf.engine import Ctx, Property


class C07(Property):
    id = "C07"
    rule = (
        "Time courses without within-frame overlap (jittered lattice placement, and identity-preserving motion histories where every "
        "droplet moves by less than half its separation per frame, drifts across periodic boundaries, is stored wrapped or unwrapped "
        "and may appear/disappear), dims 1-3, both methods, cut-offs {absent, inf, 0, 0.3s, 0.5s, s, 2s, 3s, 1e6}, with/without a "
        "(partly) periodic grid; plus the exhaustive 1-D lattice histories of C06 that satisfy the premise. Oracle: overlap relation "
        "and greedy closest-pair matching re-implemented on an independent minimal-image metric; links extracted from the returned "
        "tracks by (time, class, record bytes). Non-trivial = at least one link and (>= 2 candidates in the previous frame, or a link "
        "whose periodic distance differs from the Euclidean one, or an appearance/disappearance in a transition that has a link); "
        "distinct = distinct spec hash."
    )
    assumptions = [
        "cases with a within-frame overlap, with identical droplets in one frame, or with a track entry that cannot be identified are not judged here (C06 judges the partition)",
        "knife-edge: transitions with |distance - (r1+r2)| <= 1e-9 s (overlap) or two candidate distances closer than 1e-9 s (distance) are not judged for exact link equality",
    ]

    def budget(self, tier):
        return {"examples": 10000 if tier == "quick" else 120000, "shards": 16}

    def strategy(self, tier):
        def backwards(spec):
            # one history in eight is tracked backwards in time (the frames and their, now decreasing, time stamps reversed, as
            # obtained from the slice etc[::-1]); the statement relates consecutive frames and does not depend on the direction
            if spec["frames"] and sum(len(f) for f in spec["frames"]) % 8 == 3:
                spec = dict(spec, frames=spec["frames"][::-1], times=spec["times"][::-1], backwards=True)
                if "ids" in spec:
                    spec["ids"] = spec["ids"][::-1]
            return spec

        usual = st.one_of(T.time_courses(mode="lattice", tier=tier), T.time_courses(mode="motion", tier=tier)).map(backwards)
        return gen.rarely(T.crowd_specs(tier), usual, 100)

    def exhaustive_jobs(self, tier):
        return T.lattice_jobs(4 if tier == "quick" else 5) + T.crowd_jobs(tier)

    def expand(self, job):
        if job.get("crowd"):
            return iter([T.crowd_job_spec(job)])
        return T.lattice_expand(job)

    def check(self, spec, ctx: Ctx):
        if spec["mode"] == "crowd":
            spec = T.expand_crowd(spec)
            ctx.cls("crowd>" + str(max(t for t in (32, 64, 128, 256, 512, 1024, 2048, 4096) if spec["crowd"] > t)))
        etc, geom, grid = T.build_time_course(spec)
        frames = spec["frames"]
        s = spec["site_spacing"]
        tol = 0.0 if spec.get("exact") else 1e-9 * s  # exact-arithmetic histories (exactly touching droplets) are judged without tolerance
        if any(T.frame_has_overlap(f, geom, tol) for f in frames):
            ctx.skip("within-frame-overlap")
            return
        tracks = T.run_tracker(spec, etc, grid)
        ent, problems = T.identify(tracks, etc)
        only_missing = bool(problems) and all(p.endswith("appear in no track") for p in problems)
        if problems and not only_missing:
            ctx.skip("unidentifiable (judged by C06)")
            return
        # droplets that appear in no track are C06's concern, but the links that do exist are still judged here (a droplet that
        # belongs to no track cannot be linked, so "the tracks follow the one-to-one relation" fails for it)
        method = spec["method"]
        md = spec["max_dist"]
        md = np.inf if md in (None, "inf") else float(md)
        ctx.cls(spec["mode"], method, f"dim{spec['dim']}", "grid" if grid is not None else "nogrid")
        if spec.get("far"):
            ctx.cls("far-from-origin")
        if spec.get("backwards"):
            ctx.cls("backwards-in-time")
        links = set()
        first_of_track = set()
        if method == "overlap":
            # clause 1 holds for every pair of consecutive entries of a track, whatever frames they come from (two entries from
            # the same frame never overlap here, because frames with within-frame overlap were set aside above)
            for e in ent:
                for a, b in zip(e, e[1:]):
                    pa, pb = frames[a[0]][a[1]], frames[b[0]][b[1]]
                    d_ab = geom.dist(pa["position"], pb["position"])
                    ctx.require(d_ab < pa["radius"] + pb["radius"] + tol, "overlap:consecutive-without-overlap", f"track entries (frame {a[0]}, droplet {a[1]}) -> (frame {b[0]}, droplet {b[1]}) do not overlap: distance {d_ab} >= {pa['radius'] + pb['radius']}")
            if ctx.violations:
                return
        for e in ent:
            first_of_track.add(e[0])
            for a, b in zip(e, e[1:]):
                if b[0] == a[0] + 1:
                    links.add((a, b))
                elif method == "overlap" and b[0] > a[0] + 1:
                    # the droplet continues a track that has no entry in the previous frame: whatever it overlaps there, it is
                    # not linked to it - either it should have started a new track or it should follow the overlap relation
                    ctx.fail("overlap:link-skips-frames", f"droplet {b[1]} of frame {b[0]} continues a track whose last entry is in frame {a[0]}")
                    return
                else:
                    ctx.skip("non-consecutive link (judged by C06)")
                    return

        def D(k1, i, k2, j):
            return geom.dist(frames[k1][i]["position"], frames[k2][j]["position"])

        def E(k1, i, k2, j):
            return float(np.linalg.norm(np.array(frames[k1][i]["position"]) - np.array(frames[k2][j]["position"])))

        nontrivial = False
        for k in range(1, len(frames)):
            prev, cur = frames[k - 1], frames[k]
            lk = {(a[1], b[1]) for a, b in links if b[0] == k}
            if lk:
                if len(prev) >= 2 or len(lk) < len(prev) or len(lk) < len(cur):
                    nontrivial = True
                if any(abs(D(k - 1, i, k, j) - E(k - 1, i, k, j)) > tol for i, j in lk):
                    nontrivial = True
                    ctx.cls("link-across-periodic-boundary")
            if prev and cur:
                Pp, Pc = np.array([p["position"] for p in prev], float), np.array([q["position"] for q in cur], float)
                dist = np.linalg.norm(geom.min_image(Pp[:, None, :] - Pc[None, :, :]), axis=-1)
            else:
                dist = np.zeros((len(prev), len(cur)))
            if method == "overlap":
                rsum = np.add.outer(np.array([p["radius"] for p in prev], float), np.array([q["radius"] for q in cur], float)).reshape(len(prev), len(cur))
                knife = bool(np.any(np.abs(dist - rsum) <= tol)) and not spec.get("exact")
                rel = {(int(i), int(j)) for i, j in zip(*np.nonzero(dist < rsum))}
                for i, j in lk:
                    ctx.require(dist[i, j] < rsum[i, j] + tol, "overlap:link-without-overlap", f"frame {k - 1}->{k}: droplets {i}->{j} linked, distance {dist[i, j]} >= {rsum[i, j]}")
                if not knife:
                    has_prev = {j for _, j in rel}
                    for j in range(len(cur)):
                        if j not in has_prev:
                            ctx.require((k, j) in first_of_track, "overlap:linked-without-overlap", f"frame {k} droplet {j} overlaps nothing in frame {k - 1} but does not start a track")
                    one = len({i for i, _ in rel}) == len(rel) == len(has_prev)
                    if one:
                        ctx.cls("one-to-one")
                        ctx.require(lk == rel, "overlap:one-to-one-not-followed", f"frame {k - 1}->{k}: links {sorted(lk)} but one-to-one overlap relation {sorted(rel)}")
            else:
                for i, j in lk:
                    ctx.require(dist[i, j] <= md + tol, "distance:link-too-far", f"frame {k - 1}->{k}: link {i}->{j} over {dist[i, j]} > cut-off {md}")
                linked_i, linked_j = {l[0] for l in lk}, {l[1] for l in lk}
                ended = [i for i in range(len(prev)) if i not in linked_i]
                started = [j for j in range(len(cur)) if j not in linked_j]
                for i in ended:
                    for j in started:
                        ctx.require(not dist[i, j] < md - tol if np.isfinite(md) else False, "distance:unlinked-within-cutoff", f"frame {k - 1}->{k}: track of droplet {i} ends and droplet {j} starts a track although they are {dist[i, j]} apart (cut-off {md})")
                vals = np.sort(dist.ravel())
                distinct = vals.size < 2 or bool(np.all(np.diff(vals) > tol))
                near_cut = np.isfinite(md) and bool(np.any(np.abs(dist - md) <= tol))
                if distinct and not near_cut:
                    flat = np.argsort(dist, axis=None, kind="stable")
                    ui, uj, exp = set(), set(), set()
                    for f in flat:
                        i, j = divmod(int(f), len(cur))
                        d = dist[i, j]
                        if d > md or len(ui) == len(prev) or len(uj) == len(cur):
                            break
                        if i in ui or j in uj:
                            continue
                        ui.add(i)
                        uj.add(j)
                        exp.add((i, j))
                    ctx.cls("distinct-distances")
                    ctx.require(lk == exp, "distance:not-greedy", f"frame {k - 1}->{k}: links {sorted(lk)} but greedy closest-pair matching gives {sorted(exp)} (cut-off {md})")
            # identity expectation for motion histories
            if spec["mode"] == "motion":
                ids_prev, ids_cur = spec["ids"][k - 1], spec["ids"][k]
                ident = {(i, ids_cur.index(x)) for i, x in enumerate(ids_prev) if x in ids_cur}
                if method == "overlap" or md >= 0.5 * s * (1 - 1e-5):
                    ctx.require(ident <= lk, f"identity:lost:{method}", f"frame {k - 1}->{k}: identity links {sorted(ident)} not all in {sorted(lk)} (cut-off {md})")
                if method == "overlap" or md <= 0.5 * s * (1 + 1e-5):
                    ctx.require(lk <= ident, f"identity:extra:{method}", f"frame {k - 1}->{k}: links {sorted(lk)} beyond the identities {sorted(ident)}")
        ctx.nontrivial = nontrivial


PROP = C07()
