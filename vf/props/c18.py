"""C18 - detection depends on the image only through the documented threshold."""

from __future__ import annotations

import math

import numpy as np
from hypothesis import strategies as st

from vf import gen
from vf import oracles as O
from vf.engine import Ctx, Property

finite = gen.finite
Q = 64  # values are multiples of 1/64 -> all affine arithmetic below is exact


@st.composite
def grid_spec(draw, tier):
    fam = draw(st.sampled_from(["cart", "cart", "cart", "cart", "polar", "spherical", "cyl"]))
    if fam == "cart":
        g = draw(gen.cart_grids(max_shape=(40, 14, 7) if tier == "quick" else (64, 24, 10), min_shape=2))
        # dyadic geometry is not needed here (positions are not compared across maps), keep generic
        return {"family": "cart", **g}
    if fam in ("polar", "spherical"):
        return {"family": fam, "n": draw(st.integers(2, 24)), "dr": gen.r6(10 ** draw(st.floats(-1, 1, **finite)))}
    return {"family": "cyl", **draw(gen.cyl_grids(max_shape=(8, 14)))}


def build_grid(g):
    fam = g["family"]
    if fam == "cart":
        return gen.build_cart(g)[1]
    if fam == "polar":
        from pde import PolarSymGrid

        return PolarSymGrid(g["n"] * g["dr"], g["n"])
    if fam == "spherical":
        from pde import SphericalSymGrid

        return SphericalSymGrid(g["n"] * g["dr"], g["n"])
    return gen.build_cyl(g)


@st.composite
def specs(draw, tier):
    g = draw(grid_spec(tier))
    kind = draw(st.sampled_from(["noise", "few", "few", "blobs", "blobs"] * 6 + ["bimodal", "bimodal", "long", "long"]))
    if kind == "long":
        # a long 1-D image whose length sits at / next to powers of two and typical block sizes, with a tail that differs from
        # the rest (anything that processes the cells in blocks must still see all of them)
        n = draw(st.sampled_from([4095, 4097, 65535, 65536, 65537, 98304, 131071, 131073, 160000, 200003, 262145, 300000, 524291] + ([1048579, 1300000] if tier != "quick" else [])))
        if draw(st.booleans()):  # any length between the listed ones (a remainder block of any size)
            n = draw(st.integers(66000, 600000 if tier == "quick" else 1400000))
        g = {"family": "cart", "origin": [0.0], "shape": [n], "spacing": [gen.r6(draw(st.floats(0.25, 2, **finite)))], "periodic": [draw(st.booleans())]}
    if kind == "bimodal":  # needs enough cells to populate all 256 histogram bins
        n = draw(st.integers(40, 64))
        g = {"family": "cart", "origin": [0.0, 0.0], "shape": [n, draw(st.integers(40, 64))], "spacing": [1.0, gen.r6(draw(st.floats(0.5, 2, **finite)))], "periodic": [draw(st.booleans()), draw(st.booleans())]}
    f = {"kind": kind, "seed": draw(st.integers(0, 2**31))}
    if kind == "bimodal":
        f["sep"] = draw(st.sampled_from([2.0, 2.5, 3.0]))
        f["frac"] = draw(st.sampled_from([0.2, 0.35, 0.5]))
    if kind == "long":
        f["tail"] = draw(st.sampled_from([3, 1000, 20000, 40000]))
        if n > 210000:
            f["tail"] = draw(st.sampled_from([1000, 20000, 37000]))
    if kind == "noise":
        f["lo"], f["hi"] = sorted([draw(st.integers(-512, 512)), draw(st.integers(-512, 512))])
        if f["lo"] == f["hi"]:
            f["hi"] += 1
    elif kind == "few":
        f["levels"] = sorted(set(draw(st.lists(st.integers(-512, 512), min_size=2, max_size=5))))
        if len(f["levels"]) < 2:
            f["levels"].append(f["levels"][0] + 64)
        f["density"] = draw(st.sampled_from([0.1, 0.3, 0.5, 0.8]))
    else:
        f["n"] = draw(st.integers(1, 5))
        f["width"] = draw(st.sampled_from([0.0, 0.5, 1.0, 2.0]))
        f["noise"] = draw(st.sampled_from([0, 0, 4, 16]))
    thr = draw(st.sampled_from(["auto", "extrema", "mean", "otsu", "number", "number"]))
    if kind == "long":  # thresholds between the two levels only (a threshold inside the noise band would cut 10^4 clusters)
        thr = draw(st.sampled_from(["otsu", "otsu", "auto", "mean"]))
    spec = {"grid": g, "field": f, "threshold": thr}
    if thr == "number":
        spec["t_frac"] = draw(st.sampled_from([0.0, 0.1, 0.25, 0.5, 0.5, 0.75, 1.0, -0.1, 1.1]))
        spec["t_on_value"] = draw(st.booleans())
    spec["a"] = draw(st.sampled_from([0.25, 0.5, 2.0, 4.0, 8.0]))
    spec["b"] = draw(st.integers(-40, 40)) / 4
    if draw(st.integers(0, 5)) == 2:
        # a background far larger than the contrast (powers of two: the mapped values stay exactly representable)
        spec["b"] = float(draw(st.sampled_from([-1, 1])) * draw(st.sampled_from([2**20, 2**22, 3 * 2**21, 2**24])))
    spec["minrad"] = draw(st.sampled_from(["-inf", "zero", "q25", "q50", "q90", "exact", "exact", "huge"]))
    spec["minrad_pick"] = draw(st.integers(0, 100))
    return spec


def make_data(grid, f):
    rng = np.random.default_rng(f["seed"])
    shape = grid.shape
    if f["kind"] == "noise":
        return rng.integers(f["lo"], f["hi"] + 1, size=shape) / Q
    if f["kind"] == "few":
        lv = np.array(f["levels"], float) / Q
        idx = np.where(rng.random(shape) < f["density"], rng.integers(1, len(lv), size=shape), 0)
        return lv[idx]
    if f["kind"] == "long":
        n = shape[0]
        # three exact levels, no noise (a threshold inside a noise band would cut the image into 10^4 clusters)
        base = np.where((np.arange(n) // 4001) % 3 == 0, 1.0, 0.0)
        tail = min(f["tail"], n // 2)
        base[n - tail:] = 6.0  # a much brighter last stretch
        return np.round(base * Q) / Q
    if f["kind"] == "bimodal":
        # two overlapping Gaussian populations, spatially clustered (so that droplets exist), quantised to 1/1024
        idx = np.stack(np.meshgrid(*[np.arange(n) for n in shape], indexing="ij"), axis=-1).astype(float)
        inside = np.zeros(shape, bool)
        for _ in range(6):
            c = np.array([rng.uniform(0, n) for n in shape])
            inside |= np.linalg.norm(idx - c, axis=-1) < rng.uniform(3, 0.2 * min(shape))
        inside ^= rng.random(shape) < 0.002
        vals = np.where(inside, rng.normal(f["sep"], 0.4, shape), rng.normal(0.0, 0.4, shape))
        return np.round(np.clip(vals, -6, 8) * 1024) / 1024
    # blobs: smooth bumps around random cells (index space, so it works on every grid family), quantised
    idx = np.stack(np.meshgrid(*[np.arange(n) for n in shape], indexing="ij"), axis=-1).astype(float)
    data = np.zeros(shape)
    for _ in range(f["n"]):
        c = np.array([rng.uniform(0, n) for n in shape])
        r = rng.uniform(0.8, max(1.0, 0.3 * max(shape)))
        d = np.linalg.norm(idx + 0.5 - c, axis=-1)
        bump = (d < r).astype(float) if f["width"] == 0 else 0.5 + 0.5 * np.tanh((r - d) / f["width"])
        data = np.maximum(data, bump)
    data = data + rng.integers(-f["noise"], f["noise"] + 1, size=shape) / Q if f["noise"] else data
    return np.round(data * Q) / Q


def em_bytes(em):
    return [(type(d).__name__, d.data.tobytes()) for d in em]


class C18(Property):
    id = "C18"
    rule = (
        "Hypothesis draws a grid (Cartesian 1-3 D with any periodicity, polar, spherical, cylindrical), a field whose values are "
        "multiples of 1/64 (integer noise, few-valued images, quantised smooth blobs with optional noise; and bimodal Gaussian populations on 40-64 cell 2-D grids, multiples of 1/1024, that populate every bin of the Otsu histogram), a threshold rule "
        "(number at several fractions of the data range incl. exactly on a data value and outside the range, auto, extrema, mean, "
        "otsu), an exactly representable positive affine map (a in {1/4,1/2,2,4,8}, b multiple of 1/4) and a minimal radius "
        "(-inf, 0, quantiles of the found radii, exactly a found radius, huge). Oracle: threshold computed independently "
        "(midpoint, exactly rounded mean via fsum, Otsu by definition over the 256-bin histogram); locate_droplets must equal "
        "locate_droplets_in_mask(data > t) byte for byte; affine invariance byte for byte; the radius filter must return exactly "
        "the sub-list with radius > rho; with refinement (images with <= 6 candidates) every returned radius exceeds rho - also for a rho between a fitted and a cluster radius - and the result is the ordered sub-list of the unfiltered refined result whose cluster and fitted radii both exceed rho. Non-trivial = at least one droplet found, cells on both sides of the threshold; distinct = "
        "distinct spec hash."
    )
    assumptions = [
        "Otsu ties: if splits whose scores are within 1e-9 of the maximum produce different masks the Otsu-dependent comparisons are skipped and counted",
        "'mean': cases with a cell within 4 ulp of the mean are skipped and counted",
        "numpy.histogram is trusted for the binning of the 256-bin histogram",
    ]

    def budget(self, tier):
        return {"examples": 3000 if tier == "quick" else 100000, "shards": 12 if tier == "quick" else 16}

    def strategy(self, tier):
        return specs(tier)

    def check(self, spec, ctx: Ctx):
        from pde import ScalarField

        from droplets.image_analysis import locate_droplets, locate_droplets_in_mask, threshold_otsu

        grid = build_grid(spec["grid"])
        data = make_data(grid, spec["field"])
        rule = spec["threshold"]
        lo, hi = float(data.min()), float(data.max())
        ctx.cls(spec["grid"]["family"], f"rule:{rule}", f"field:{spec['field']['kind']}")
        if abs(spec["b"]) > 1e5:
            ctx.cls("large-background")
        a, b = spec["a"], spec["b"]
        data2 = a * data + b
        otsu_ok = True
        if rule in ("auto", "extrema"):
            t = (lo + hi) / 2
            t2 = a * t + b
        elif rule == "mean":
            t = math.fsum(data.ravel().tolist()) / data.size
            t2 = math.fsum(data2.ravel().tolist()) / data2.size
            if np.any(np.abs(data - t) <= 4 * np.spacing(abs(t) + 1e-300)) and not np.any(data == t):
                ctx.skip("mean-knife-edge")
                return
            if abs(b) > 1e5 and np.any(np.abs(data2 - t2) <= 64 * np.spacing(abs(t2))):
                ctx.skip("mean-knife-edge")  # the mean of values around 2^24 is only known to a few ulp
                return
        elif rule == "otsu":
            if lo == hi:
                ctx.cls("constant-field")
                return  # degenerate histogram: exercised by C09 only
            # (2a) Otsu alone on a dense sample that populates every bin (no plateau of equal scores)
            rs = np.random.default_rng(spec["field"]["seed"] + 1)
            n1 = int(rs.integers(500, 4000))
            dense = np.round(np.r_[rs.normal(0.0, 0.5, n1), rs.normal(rs.uniform(0.8, 2.5), rs.uniform(0.3, 0.8), 5000 - n1)] * 1024) / 1024
            dc, ds = O.otsu_scores(dense)
            dg = threshold_otsu(dense)
            dfin = np.nan_to_num(ds, nan=-np.inf)
            dk = np.flatnonzero(np.abs(dc - dg) <= 1e-12 * (dense.max() - dense.min()))
            ok_dense = dk.size >= 1 and int(dk[0]) < len(dfin) and dfin[int(dk[0])] >= dfin.max() * (1 - 1e-9)
            ctx.require(ok_dense, "otsu:dense-sample-not-maximal", f"threshold_otsu={dg} on a dense bimodal sample is not the bin centre maximising the between-class variance (best {dc[int(np.argmax(dfin))]})")
            if spec["field"]["kind"] == "long":
                # (2b) the same on a dense sample as long as the image whose last stretch comes from the brighter population only:
                # every cell must enter the histogram, wherever it is stored
                nbig = data.size
                m = min(int(spec["field"]["tail"]), nbig // 2)
                big = np.round(np.r_[rs.normal(0.0, 0.5, nbig - m), rs.normal(2.0, 0.5, m)] * 1024) / 1024
                bc, bs = O.otsu_scores(big)
                bg = threshold_otsu(big)
                bfin = np.nan_to_num(bs, nan=-np.inf)
                bk = np.flatnonzero(np.abs(bc - bg) <= 1e-12 * (big.max() - big.min()))
                ok_big = bk.size >= 1 and int(bk[0]) < len(bfin) and bfin[int(bk[0])] >= bfin.max() * (1 - 1e-9)
                ctx.require(ok_big, "otsu:long-dense-sample-not-maximal", f"threshold_otsu={bg} on {nbig} values (the last {m} from a brighter population) is not the bin centre maximising the between-class variance (best {bc[int(np.argmax(bfin))]})")
            centres, scores = O.otsu_scores(data)
            got = threshold_otsu(data)
            fin = np.nan_to_num(scores, nan=-np.inf)
            best = fin.max()
            k = np.flatnonzero(np.abs(centres - got) <= 1e-12 * max(abs(lo), abs(hi), hi - lo))
            if not ctx.require(k.size >= 1, "otsu:not-a-bin-centre", f"threshold_otsu={got} is not a centre of the 256-bin histogram of [{lo},{hi}]"):
                return
            k = int(k[0])
            if not ctx.require(k < len(fin) and fin[k] >= best * (1 - 1e-9), "otsu:not-maximal", f"threshold_otsu={got} (bin {k}) has between-class variance {fin[k] if k < len(fin) else None} < max {best}"):
                return
            # (with a background of 2^20 ... 2^24 the class means of the mapped image carry a relative rounding of ~1e-9, which moves
            # near-ties: splits within 1e-6 of the best score must then all give the same mask)
            top = np.flatnonzero(fin >= best * (1 - (1e-6 if abs(b) > 1e5 else 1e-9)))
            masks = {(data > centres[i]).tobytes() for i in top}
            otsu_ok = len(masks) == 1
            if not otsu_ok:
                ctx.cls("otsu-tie")
            t = got
            t2 = threshold_otsu(data2)
        else:
            vals = np.unique(data)
            t = lo + spec["t_frac"] * (hi - lo)
            if spec["t_on_value"]:
                t = float(vals[np.argmin(np.abs(vals - t))])  # exactly on a data value: separates > from >=
            else:
                t = math.floor(t * Q * 4) / (Q * 4)
            t2 = a * t + b
        field = ScalarField(grid, data)
        field2 = ScalarField(grid, data2)
        thr_arg = t if rule == "number" else rule
        thr_arg2 = t2 if rule == "number" else rule
        mask = data > t
        ref = locate_droplets_in_mask(ScalarField(grid, mask, dtype=bool))
        snap = data.tobytes()
        res_all = locate_droplets(field, threshold=thr_arg, minimal_radius=-np.inf)
        ctx.require(field.data.tobytes() == snap, "field-modified", "locate_droplets modified the field")
        ctx.nontrivial = len(ref) >= 1 and bool(mask.any()) and not bool(mask.all())
        if mask.any() and not mask.all():
            ctx.cls("both-sides")
        # (1) result == result on the documented binary image
        if rule != "otsu" or otsu_ok:
            ctx.require(em_bytes(res_all) == em_bytes(ref), f"threshold-semantics:{rule}", f"rule {rule}: locate_droplets gives {len(res_all)} droplets, the binary image (data > {t}) gives {len(ref)}")
        # (1b) the same image stored with an integer dtype (values x 64 are exact integers for these fields) gives the same result
        #      as the float field holding those integer values
        if spec["field"]["kind"] in ("noise", "few", "long") and (rule != "otsu" or otsu_ok):
            ints = np.round(data * Q)
            if np.array_equal(ints / Q, data) and np.abs(ints).max() < 2**31:
                ctx.cls("integer-field")
                thr_i = (t * Q) if rule == "number" else rule
                f_float = ScalarField(grid, ints.astype(float))
                f_int = ScalarField(grid, ints.astype(np.int64), dtype=np.int64)
                r_float = locate_droplets(f_float, threshold=thr_i, minimal_radius=-np.inf)
                r_int = locate_droplets(f_int, threshold=thr_i, minimal_radius=-np.inf)
                ctx.require(em_bytes(r_int) == em_bytes(r_float), f"representation:int:{rule}", f"rule {rule}: an int64 field gives {len(r_int)} droplets, the float field with the same values {len(r_float)}")
                if rule == "otsu":
                    ctx.require(threshold_otsu(ints.astype(np.int64)) == threshold_otsu(ints.astype(float)), "representation:int:threshold_otsu", "threshold_otsu differs between an integer array and the float array with the same values")
        # (3) affine invariance
        if rule != "otsu" or otsu_ok:
            res2 = locate_droplets(field2, threshold=thr_arg2, minimal_radius=-np.inf)
            ctx.require(em_bytes(res2) == em_bytes(res_all), f"affine-invariance:{rule}", f"rule {rule}: result changes under f -> {a} f + {b} ({len(res_all)} vs {len(res2)} droplets)")
        # default minimal radius (0) must not drop anything with positive radius
        res_def = locate_droplets(field, threshold=thr_arg)
        ctx.require(em_bytes(res_def) == [e for e, d in zip(em_bytes(res_all), res_all) if d.radius > 0], "default-filter", "default minimal_radius=0 dropped a droplet of positive radius")
        # (4) radius filter
        radii = sorted(float(d.radius) for d in res_all)
        mr = spec["minrad"]
        if mr == "-inf":
            rho = -np.inf
        elif mr == "zero" or not radii:
            rho = 0.0
        elif mr == "huge":
            rho = 1e9
        elif mr == "exact":
            rho = radii[spec["minrad_pick"] % len(radii)]
            ctx.cls("minrad-exactly-a-radius")
        else:
            rho = float(np.quantile(radii, {"q25": 0.25, "q50": 0.5, "q90": 0.9}[mr]))
        res_f = locate_droplets(field, threshold=thr_arg, minimal_radius=rho)
        exp = [e for e, d in zip(em_bytes(res_all), res_all) if d.radius > rho]
        ctx.require(em_bytes(res_f) == exp, "radius-filter", f"minimal_radius={rho}: {len(res_f)} droplets returned, expected the {len(exp)} with radius > rho out of radii {radii}")
        for d in res_f:
            ctx.require(d.radius > rho, "radius-filter:too-small", f"returned radius {d.radius} <= {rho}")
        # (5) the same with refinement: every returned droplet exceeds the minimal radius, and the filter only removes droplets
        #     whose radius (before or after the fit) does not exceed it.  Kept cheap: few candidates, moderate grids.
        if 1 <= len(res_all) <= 6 and data.size <= 800 and spec["grid"]["family"] in ("cart", "cyl", "polar", "spherical"):
            ref_all = locate_droplets(field, threshold=thr_arg, minimal_radius=-np.inf, refine=True)
            aligned = len(ref_all) == len(res_all)
            rhos = [rho]
            if aligned:
                for d0, d1 in zip(res_all, ref_all):
                    if d1.radius < d0.radius:  # a bound between the fitted and the cluster radius
                        rhos.append(0.5 * (float(d0.radius) + float(d1.radius)))
                        break
            for rr in rhos:
                if not np.isfinite(rr):
                    continue
                ctx.cls("refine-filter")
                got = locate_droplets(field, threshold=thr_arg, minimal_radius=rr, refine=True)
                for d in got:
                    ctx.require(d.radius > rr, "refine-filter:too-small", f"refine=True, minimal_radius={rr}: returned radius {d.radius}")
                gb, ab = em_bytes(got), em_bytes(ref_all)
                it = iter(ab)
                ctx.require(all(any(g == x for x in it) for g in gb), "refine-filter:not-a-sublist", f"refine=True, minimal_radius={rr}: result is not an ordered sub-list of the unfiltered refined result")
                if aligned:
                    exp_r = [e for e, d0, d1 in zip(ab, res_all, ref_all) if d0.radius > rr and d1.radius > rr]
                    ctx.require(gb == exp_r, "refine-filter:dropped-or-kept-wrongly", f"refine=True, minimal_radius={rr}: {len(gb)} droplets, expected {len(exp_r)} (cluster radii {[float(d.radius) for d in res_all]}, fitted {[float(d.radius) for d in ref_all]})")


PROP = C18()
