"""C09 - analysis never aborts on valid input and returns finite droplets."""

from __future__ import annotations

import math

import numpy as np
from hypothesis import strategies as st

from vf import gen
from vf import tracking as T
from vf.engine import Ctx, Property

finite = gen.finite


@st.composite
def any_grid(draw, tier, tiny=True):
    fam = draw(st.sampled_from(["cart", "cart", "cart", "polar", "spherical", "cyl"]))
    if fam == "cart":
        cap = (20, 10, 6) if tier == "quick" else (40, 16, 8)
        aniso = draw(st.sampled_from([(0.4, 2.5), (0.4, 2.5), (0.08, 12.0)]))  # sometimes strongly anisotropic cells
        return {"family": "cart", **draw(gen.cart_grids(max_shape=cap, min_shape=1, aniso=aniso))}
    if fam in ("polar", "spherical"):
        return {"family": fam, "n": draw(st.integers(1, 16)), "dr": gen.r6(10 ** draw(st.floats(-2, 1.5, **finite)))}
    return {"family": "cyl", **draw(gen.cyl_grids(max_shape=(6, 10)))}


def build_grid(g):
    fam = g["family"]
    if fam == "cart":
        return gen.build_cart(g)[1]
    if fam == "polar":
        from pde import PolarSymGrid

        return PolarSymGrid(g["n"] * g["dr"], g["n"])
    if fam == "spherical":
        from pde import SphericalSymGrid

        return SphericalSymGrid(g["n"] * g["dr"], g["n"])
    return gen.build_cyl(g)


@st.composite
def field_spec(draw):
    kind = draw(st.sampled_from(["noise", "constant", "binary", "smooth", "blobs", "blobs", "gradient"]))
    return {
        "kind": kind,
        "seed": draw(st.integers(0, 2**31)),
        "scale": gen.r6(draw(st.sampled_from([1.0, 1.0, 1e-6, 1e-3, 10.0, 1e6]))),
        "offset": gen.r6(draw(st.sampled_from([0.0, 0.0, -1.0, 0.5, 1e3, -1e6]))),
        "density": draw(st.sampled_from([0.05, 0.3, 0.6, 0.95])),
    }


def make_field(grid, f):
    rng = np.random.default_rng(f["seed"])
    shape = grid.shape
    idx = np.stack(np.meshgrid(*[np.arange(n) for n in shape], indexing="ij"), -1).astype(float)
    k = f["kind"]
    if k == "noise":
        d = rng.random(shape)
    elif k == "constant":
        d = np.full(shape, rng.choice([0.0, 1.0, 0.5, -2.0]))
    elif k == "binary":
        d = (rng.random(shape) < f["density"]).astype(float)
    elif k == "smooth":
        d = 0.5 + 0.5 * np.cos((idx * rng.uniform(0.1, 2.0, idx.shape[-1])).sum(-1) + rng.uniform(0, 6))
    elif k == "gradient":
        d = idx[..., 0] / max(1, shape[0] - 1)
    elif k == "thread":
        # one thin band that winds many times around the (periodic) first axis of a narrow 2-D image, like the thread of a screw:
        # the labelling sees one cluster per winding, linked pairwise through the boundary - a long chain of merges
        d = np.zeros(shape)
        w = shape[0]
        for n in range((shape[1] - 1) // 4):
            a = 4 * n
            d[0, a : a + 3] = 1
            d[:, a + 2] = 1
            d[w - 1, a + 2 : a + 5] = 1
    elif k == "speckles":
        # very many tiny clusters (isolated cells on a sparse lattice, a fraction of them missing)
        d = np.zeros(shape)
        sl = tuple(slice(0, None, 2) for _ in shape)
        d[sl] = (rng.random(d[sl].shape) < f["density"]).astype(float)
    else:
        d = np.zeros(shape)
        for _ in range(int(rng.integers(1, 5))):
            c = np.array([rng.uniform(-1, n + 1) for n in shape])
            r = rng.uniform(0.4, max(0.6, 0.4 * max(shape)))
            w = rng.choice([0.0, 0.5, 1.5])
            dist = np.linalg.norm(idx + 0.5 - c, axis=-1)
            d = np.maximum(d, (dist < r).astype(float) if w == 0 else 0.5 + 0.5 * np.tanh((r - dist) / w))
        d = d + f["density"] * 0.02 * rng.standard_normal(shape)
    return f["scale"] * d + f["offset"]


@st.composite
def locate_specs(draw, tier):
    g = draw(any_grid(tier))
    f = draw(field_spec())
    thr = draw(st.sampled_from(["auto", "extrema", "mean", "otsu", "number", "number", "number-outside"]))
    spec = {"kind": "locate", "grid": g, "field": f, "threshold": thr, "t_frac": draw(st.sampled_from([0.1, 0.5, 0.5, 0.9, 0.0, 1.0]))}
    spec["minimal_radius"] = draw(st.sampled_from(["-inf", 0, 0, "small", "huge"]))
    spec["interface_width"] = draw(st.sampled_from([None, None, 0.0, "cell", "big"]))
    spec["modes"] = draw(st.sampled_from([0, 0, 0, 1, 2, 3, 4]))
    spec["refine"] = draw(st.booleans())
    ra = {}
    lev = draw(st.sampled_from(["default", "default", "data", "none", "none-min", "none-max"]))
    spec["levels"] = lev
    spec["adjust_values"] = draw(st.sampled_from([False, False, True]))
    spec["tolerance"] = draw(st.sampled_from([None, None, 1e-3, 1e-8]))
    spec["ls_params"] = draw(st.sampled_from([None, None, None, {}, {"max_nfev": 25}, {"method": "trf", "loss": "linear"}]))  # documented pass-through to scipy
    spec["via"] = draw(st.sampled_from(["locate_droplets", "locate_droplets", "tracker"]))
    # refinement spread over worker processes (documented option), also when nothing or a single candidate is left to refine
    spec["num_processes"] = draw(st.sampled_from([1] * 11 + [2]))
    del ra
    return spec


@st.composite
def render_specs(draw, tier):
    g = draw(any_grid(tier))
    fam = g["family"]
    dim = {"polar": 2, "spherical": 3, "cyl": 3}.get(fam) or len(g["shape"])
    classes = ["SphericalDroplet", "DiffuseDroplet"]
    if fam == "cart" and dim == 2:
        classes.append("PerturbedDroplet2D")
    if fam == "cart" and dim == 3:
        classes += ["PerturbedDroplet3D", "PerturbedDroplet3DAxisSym"]
    if fam == "cyl":
        classes.append("PerturbedDroplet3DAxisSym")
    cls = draw(st.sampled_from(classes))
    if fam == "cart":
        L = [n * s for n, s in zip(g["shape"], g["spacing"])]
        pos = []
        for a in range(dim):
            kind = draw(st.sampled_from(["in", "cell-centre", "out"]))
            if kind == "cell-centre":
                pos.append(g["origin"][a] + (draw(st.integers(0, g["shape"][a] - 1)) + 0.5) * g["spacing"][a])
            else:
                pos.append(g["origin"][a] + draw(st.floats(-1, 2, **finite)) * L[a])
        size = max(L)
    elif fam in ("polar", "spherical"):
        pos = [0.0] * dim
        size = g["n"] * g["dr"]
    else:
        size = max(g["nr"] * g["dr"], g["nz"] * g["dz"])
        pos = [0.0, 0.0, g["z0"] + draw(st.floats(-0.5, 1.5, **finite)) * g["nz"] * g["dz"]]
        if draw(st.booleans()):
            pos[2] = g["z0"] + (draw(st.integers(0, g["nz"] - 1)) + 0.5) * g["dz"]
    if cls == "PerturbedDroplet3DAxisSym":
        pos[0] = pos[1] = 0.0
    d = {"cls": cls, "position": [float(x) for x in pos], "radius": gen.r6(size * draw(st.sampled_from([0.0, 1e-6, 0.1, 0.3, 0.6, 3.0])))}
    if cls != "SphericalDroplet":
        d["interface_width"] = draw(st.sampled_from([None, 0.0, gen.r6(size * 0.01), gen.r6(size * 0.2), gen.r6(size * 100)]))
    if cls.startswith("Perturbed"):
        n = draw(st.integers(1, 8)) if cls != "PerturbedDroplet3DAxisSym" else draw(st.integers(1, 4))
        d["amplitudes"] = [gen.r6(draw(st.floats(-1, 1, **finite))) if draw(st.booleans()) else 0.0 for _ in range(n)]
    return {"kind": "render", "grid": g, "droplet": d, "vmin": gen.r6(draw(st.floats(-10, 10, **finite))), "vmax": gen.r6(draw(st.floats(-10, 10, **finite)))}


@st.composite
def invalid_specs(draw, tier):
    what = draw(st.sampled_from(["modes-1d", "dim-mismatch", "not-a-scalarfield", "unknown-method", "not-a-scalarfield-refine"]))
    spec = {"kind": "invalid", "what": what, "seed": draw(st.integers(0, 1000))}
    if what == "modes-1d":
        spec["grid"] = {"family": "cart", **draw(gen.cart_grids(dims=(1,), max_shape=(20, 1, 1), min_shape=1))}
        spec["modes"] = draw(st.integers(1, 4))
        spec["refine"] = draw(st.booleans())
    elif what == "dim-mismatch":
        spec["grid"] = draw(any_grid(tier))
        spec["droplet_dim"] = draw(st.integers(1, 3))
        spec["cls"] = draw(st.sampled_from(["SphericalDroplet", "DiffuseDroplet"]))
    elif what.startswith("not-a-scalarfield"):
        spec["grid"] = {"family": "cart", **draw(gen.cart_grids(dims=(2,), max_shape=(8, 8, 1), min_shape=2))}
        spec["arg"] = draw(st.sampled_from(["ndarray", "vectorfield", "none", "collection"]))
    return spec


def finite_droplet(d, allow_nan_width):
    for key in d.data.dtype.names:
        v = np.asarray(d.data[key], float)
        if key == "interface_width" and allow_nan_width and np.all(np.isnan(v)):
            continue
        if not np.all(np.isfinite(v)):
            return key
    return None


class C09(Property):
    id = "C09"
    rule = (
        "Fuzzing of the analysis entry points with Hypothesis-generated valid requests: locate_droplets / DropletTracker.handle on "
        "finite fields (noise, constants, binary, smooth waves, blobs with sharp or diffuse edges, gradients; scales 1e-6..1e6, offsets "
        "up to +-1e6) on every grid family with 1-cell to moderate shapes x threshold (rules, numbers inside / at the edge / outside "
        "the data range) x minimal_radius (-inf, 0, small, huge) x interface_width (None, 0, one cell, large) x modes 0-4 x refine "
        "on/off x refine_args (default levels, data levels, None, partly None; adjust_values; tolerance; least_squares_params); rendering of every droplet "
        "class on every compatible grid (centres on cell centres, outside the box, radius 0 to 3 box sizes, widths 0 to 100 box "
        "sizes, amplitudes up to +-1); tracking of arbitrary time courses (both methods, all cut-offs, empty frames); and documented "
        "invalid requests (modes in 1-D, droplet/grid dimension mismatch, non-ScalarField input, unknown tracking method). Oracle: "
        "valid -> returns, all droplet parameters finite (unset width excepted when none was supplied and refinement is off), "
        "rendered fields finite; invalid -> exactly the documented exception type. Failures are bucketed by (exception type, innermost "
        "library frame). Non-trivial = the request reached at least one candidate droplet, rendered a droplet that cuts the grid, "
        "tracked >= 2 non-empty frames, or is an invalid request; distinct = distinct spec hash."
    )
    assumptions = [
        "'valid' is read from the docstrings: finite ScalarField, documented option values, |values| <= 2e6, vmin < vmax when both are numbers; when only one level is left to be determined automatically the supplied one lies outside the data range on the proper side",
        "perturbation modes are requested only on grids of dimension 2 or 3; perturbed renders only on compatible grids (see C03)",
        "fields whose contrast is positive but below 1e-9 of their magnitude or below 1e-290 in absolute terms (not resolvable in double precision; numpy cannot form a 256-bin histogram) are skipped and counted; exactly constant fields are judged",
    ]

    def budget(self, tier):
        return {"examples": 6000 if tier == "quick" else 150000, "shards": 16}

    def strategy(self, tier):
        return st.one_of(locate_specs(tier), locate_specs(tier), locate_specs(tier), render_specs(tier), T.time_courses(mode="free", tier=tier).map(lambda s: {"kind": "track", **s}), invalid_specs(tier))

    # large structures (a fixed sweep): long chains of clusters linked through a periodic boundary, images with thousands of clusters
    def exhaustive_jobs(self, tier):
        jobs = []
        for n in ([3, 40, 300, 1100, 1600] if tier == "quick" else [3, 40, 300, 1100, 1600, 3000, 6000]):
            for per in ([True, False], [True, True]):
                jobs.append({"domain": "large-structures", "what": "thread", "n": n, "periodic": per})
        for shape in ([[50, 44], [16, 14, 12]] if tier == "quick" else [[50, 44], [16, 14, 12], [70, 60], [24, 20, 18]]):
            jobs.append({"domain": "large-structures", "what": "speckles", "shape": shape})
        return jobs

    def expand(self, job):
        base = {"kind": "locate", "threshold": "number", "t_frac": 0.5, "minimal_radius": 0, "interface_width": None, "modes": 0, "refine": False, "levels": "default", "adjust_values": False, "tolerance": None, "ls_params": None, "via": "locate_droplets"}
        if job["what"] == "thread":
            g = {"family": "cart", "origin": [0.0, -2.0], "shape": [3, 4 * job["n"] + 1], "spacing": [1.0, 0.5], "periodic": job["periodic"]}
            yield {**base, "grid": g, "field": {"kind": "thread", "seed": 0, "scale": 1.0, "offset": 0.0, "density": 0.3}}
            yield {**base, "grid": g, "field": {"kind": "thread", "seed": 0, "scale": 1e-3, "offset": 0.5, "density": 0.3}, "threshold": "auto", "via": "tracker"}
        else:
            dim = len(job["shape"])
            g = {"family": "cart", "origin": [0.0] * dim, "shape": job["shape"], "spacing": [0.8] * dim, "periodic": [True] + [False] * (dim - 1)}
            for dens in (0.35, 0.9):
                yield {**base, "grid": g, "field": {"kind": "speckles", "seed": 5, "scale": 1.0, "offset": 0.0, "density": dens}, "minimal_radius": "-inf"}

    def check(self, spec, ctx: Ctx):
        getattr(self, "_" + spec["kind"])(spec, ctx)

    # --------------------------------------------------------------------------------------
    def _locate(self, spec, ctx):
        from pde import ScalarField

        from droplets import Emulsion
        from droplets.image_analysis import locate_droplets
        from droplets.trackers import DropletTracker

        grid = build_grid(spec["grid"])
        data = make_field(grid, spec["field"])
        lo, hi = float(data.min()), float(data.max())
        if 0 < hi - lo < max(1e-9 * max(abs(lo), abs(hi)), 1e-290):
            # contrast below 1e-9 of the magnitude (a few hundred ulps): the image is neither constant nor resolvable in double
            # precision (numpy cannot even form a 256-bin histogram of it); constant fields are generated and judged
            ctx.skip("sub-resolution-contrast")
            return
        thr = spec["threshold"]
        if thr == "number":
            thr = lo + spec["t_frac"] * (hi - lo)
        elif thr == "number-outside":
            thr = hi + 1.0 if spec["t_frac"] >= 0.5 else lo - 1.0
        dxs = np.asarray(grid.discretization, float)
        mr = {"-inf": -np.inf, "small": 0.6 * float(dxs.min()), "huge": 1e12}.get(spec["minimal_radius"], spec["minimal_radius"])
        iw = {"cell": float(dxs.max()), "big": 50 * float(dxs.max())}.get(spec["interface_width"], spec["interface_width"])
        modes = spec["modes"] if grid.dim >= 2 else 0
        kw = dict(threshold=thr, minimal_radius=mr, modes=modes, refine=spec["refine"])
        ra = {}
        lev = spec["levels"]
        if lev == "data" and hi > lo:
            ra.update(vmin=lo, vmax=hi)
        elif lev == "none":
            ra.update(vmin=None, vmax=None)
        elif lev == "none-min":  # the supplied inside level lies above all data, so the levels are consistent
            ra.update(vmin=None, vmax=hi + 1.0)
        elif lev == "none-max":  # the supplied outside level lies below all data
            ra.update(vmin=lo - 1.0, vmax=None)
        if spec["adjust_values"]:
            ra["adjust_values"] = True
        if spec["tolerance"] is not None:
            ra["tolerance"] = spec["tolerance"]
        if spec.get("ls_params") is not None:
            ra["least_squares_params"] = dict(spec["ls_params"])  # one dict for all candidates / frames of this request, as a user would pass it
        field = ScalarField(grid, data)
        ctx.cls("locate", spec["grid"]["family"], f"refine:{spec['refine']}", f"modes:{modes}", f"field:{spec['field']['kind']}")
        if data.size > 4096:
            ctx.cls("cells>" + str(max(t for t in (4096, 16384, 65536) if data.size > t)))
        if spec["via"] == "tracker":
            tr = DropletTracker(1, threshold=thr, minimal_radius=mr, refine=spec["refine"], refine_args=dict(ra) if ra else None, perturbation_modes=modes)
            tr.initialize(field)
            tr.handle(field, 0.0)
            tr.handle(field, 1.5)
            tr.finalize()
            ctx.require(len(tr.data) == 2 and list(tr.data.times) == [0.0, 1.5], "tracker:frames", f"tracker recorded times {tr.data.times}")
            res = tr.data.emulsions[-1]
            iw_used = None
        else:
            shared = dict(ra) if ra else None
            if shared is not None and "least_squares_params" in shared and spec["refine"] and grid.dim >= 2:
                # a user who keeps one options dict for several analyses: the same dict first serves a request with another
                # droplet model (other number of fit parameters), then the judged request
                ctx.cls("shared-options-dict")
                locate_droplets(field, interface_width=iw, refine_args=shared, **{**kw, "modes": 0 if modes else 2})
            if spec.get("num_processes", 1) != 1 and spec["refine"]:
                kw["num_processes"] = spec["num_processes"]
                ctx.cls(f"processes:{spec['num_processes']}")
            res = locate_droplets(field, interface_width=iw, refine_args=shared, **kw)
            iw_used = iw
        if not ctx.require(isinstance(res, Emulsion), "locate:type", f"returned {type(res).__name__}"):
            return
        ncand = int((data > (thr if not isinstance(thr, str) else {"auto": (lo + hi) / 2, "extrema": (lo + hi) / 2, "mean": data.mean()}.get(thr, (lo + hi) / 2))).sum())
        ctx.nontrivial = ncand > 0
        if len(res):
            ctx.cls("droplets-found")
        allow_nan = iw_used is None and not spec["refine"]
        for d in res:
            bad = finite_droplet(d, allow_nan)
            ctx.require(bad is None, f"non-finite:{bad}:refine={spec['refine']}:modes={modes}", f"droplet {d} has a non-finite {bad}")
            ctx.require(d.dim == grid.dim, "locate:dim", f"droplet dim {d.dim} on grid dim {grid.dim}")

    def _render(self, spec, ctx):
        import droplets.droplets as D

        from vf.props.c03 import make_droplet

        grid = build_grid(spec["grid"])
        d = make_droplet(spec["droplet"]["cls"], spec["droplet"])
        vmin, vmax = spec["vmin"], spec["vmax"]
        f = d.get_phase_field(grid, vmin=vmin, vmax=vmax)
        data = np.asarray(f.data, float)
        ctx.cls("render", spec["droplet"]["cls"], spec["grid"]["family"])
        ctx.require(data.shape == tuple(grid.shape), "render:shape", f"{data.shape}")
        ctx.require(bool(np.all(np.isfinite(data))), f"render:non-finite:{spec['droplet']['cls']}", f"{int(np.sum(~np.isfinite(data)))} non-finite cells")
        b = np.asarray(d._get_phase_field(grid, dtype=bool))
        ctx.require(b.dtype == bool and b.shape == tuple(grid.shape), "render:bool", "binary rendering has a wrong type / shape")
        ctx.nontrivial = bool(b.any() and not b.all())
        from droplets import Emulsion

        e = Emulsion([d, d]).get_phasefield(grid)
        ctx.require(bool(np.all(np.isfinite(e.data))), "render:emulsion-non-finite", "emulsion field not finite")
        del D

    def _track(self, spec, ctx):
        etc, geom, grid = T.build_time_course(spec)
        n_all = sum(len(f) for f in spec["frames"])
        if grid is None and spec["dim"] >= 2 and not spec.get("far") and n_all % 3 == 1:
            # the metric may be taken from any grid: a radially symmetric or cylindrical one of the same dimension (only completion and
            # the number of tracked droplets are judged then)
            from pde import CylindricalSymGrid, PolarSymGrid, SphericalSymGrid

            L = 4.0 * spec["site_spacing"]
            if spec["dim"] == 2:
                grid = PolarSymGrid(L, 6)
            else:
                grid = [SphericalSymGrid(L, 6), CylindricalSymGrid(L, (-L, 2 * L), (4, 9)), CylindricalSymGrid(L, (-L, 2 * L), (4, 9), periodic_z=True)][n_all % 9 // 3]
            ctx.cls("metric-of:" + type(grid).__name__)
        tracks = T.run_tracker(spec, etc, grid)
        ctx.cls("track", spec["method"], "grid" if grid is not None else "nogrid")
        ctx.nontrivial = sum(1 for f in spec["frames"] if f) >= 2
        for tr in tracks:
            for t, d in zip(tr.times, tr.droplets):
                ctx.require(math.isfinite(float(t)), "track:time", f"time {t}")
                bad = finite_droplet(d, True)
                ctx.require(bad is None, f"track:non-finite:{bad}", f"{d}")
        n_in = sum(len(f) for f in spec["frames"])
        n_out = sum(len(tr) for tr in tracks)
        ctx.require(n_in == n_out, "track:count", f"{n_in} droplets in, {n_out} in tracks")

    def _after_rejection(self, ctx, field):
        """a documented rejection must leave nothing behind: the next valid requests on the same grid complete and are finite"""
        from droplets import Emulsion
        from droplets.image_analysis import locate_droplets

        lo, hi = float(np.min(field.data)), float(np.max(field.data))
        if 0 < hi - lo < max(1e-9 * max(abs(lo), abs(hi)), 1e-290):
            return  # contrast not resolvable in double precision (see the assumptions)
        for kw in (dict(), dict(refine=True), dict(threshold="otsu", minimal_radius=-np.inf)):
            try:
                res = locate_droplets(field, **kw)
            except Exception as exc:  # noqa: BLE001
                ctx.fail(f"after-rejection:raises:{type(exc).__name__}", f"valid request {kw} after a rejected one raised {type(exc).__name__}: {exc}")
                return
            ok = isinstance(res, Emulsion) and all(finite_droplet(d, not kw.get("refine", False)) is None for d in res)
            ctx.require(ok, "after-rejection:not-finite", f"valid request {kw} after a rejected one returned {res}")

    def _invalid(self, spec, ctx):
        from pde import FieldCollection, ScalarField, VectorField

        import droplets
        from droplets import DropletTrackList, EmulsionTimeCourse
        from droplets.image_analysis import locate_droplets, refine_droplet

        what = spec["what"]
        ctx.cls("invalid", what)
        ctx.nontrivial = True

        def expect(exc_type, fn, label):
            try:
                fn()
            except exc_type:
                return
            except Exception as exc:  # noqa: BLE001
                ctx.fail(f"invalid:{label}:wrong-exception:{type(exc).__name__}", f"expected {exc_type.__name__}, got {type(exc).__name__}: {exc}")
                return
            ctx.fail(f"invalid:{label}:no-exception", f"expected {exc_type.__name__}, call returned")

        if what == "modes-1d":
            grid = build_grid(spec["grid"])
            field = ScalarField(grid, np.random.default_rng(spec["seed"]).random(grid.shape))
            expect(ValueError, lambda: locate_droplets(field, modes=spec["modes"], refine=spec["refine"]), "modes-1d")
            self._after_rejection(ctx, field)
        elif what == "dim-mismatch":
            grid = build_grid(spec["grid"])
            dd = spec["droplet_dim"]
            if dd == grid.dim:
                return
            cls = getattr(droplets, spec["cls"])
            d = cls(np.zeros(dd), 1.0)
            expect(ValueError, lambda: d.get_phase_field(grid), "dim-mismatch")
            # the rejected droplet and the grid stay usable: a droplet of the right dimension renders, the rejected one renders
            # on a grid of its own dimension
            ok = cls(np.zeros(grid.dim), 1.0).get_phase_field(grid)
            ctx.require(bool(np.all(np.isfinite(ok.data))), "after-rejection:render", "render after a rejected request is not finite")
            self._after_rejection(ctx, ScalarField(grid, np.asarray(ok.data, float)))
        elif what.startswith("not-a-scalarfield"):
            grid = build_grid(spec["grid"])
            sf = ScalarField(grid, 1.0)
            arg = {"ndarray": np.zeros(grid.shape), "vectorfield": VectorField(grid, 1.0), "none": None, "collection": FieldCollection([sf, sf])}[spec["arg"]]
            if what.endswith("refine"):
                expect(TypeError, lambda: refine_droplet(arg, droplets.DiffuseDroplet(np.zeros(2), 1.0, 0.5)), "not-a-scalarfield-refine")
            else:
                expect(TypeError, lambda: locate_droplets(arg), "not-a-scalarfield")
            self._after_rejection(ctx, ScalarField(grid, np.random.default_rng(spec.get("seed", 0)).random(grid.shape)))
        else:
            etc = EmulsionTimeCourse([droplets.Emulsion([droplets.SphericalDroplet([0.0], 1.0)])], [0])
            expect(ValueError, lambda: DropletTrackList.from_emulsion_time_course(etc, method="nearest"), "unknown-method")


PROP = C09()
