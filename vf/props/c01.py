"""C01 - locating a rendered emulsion returns each droplet once, with exact volume."""

from __future__ import annotations

import math

import numpy as np
from hypothesis import strategies as st

from vf import gen
from vf import oracles as O
from vf.engine import Ctx, Property

finite = gen.finite
MARGIN = 1e-6  # relative safety margin used when constructing the separation precondition


@st.composite
def cart_specs(draw, tier):
    big = tier == "thorough"
    g = draw(gen.cart_grids(max_shape=(48, 48, 20) if big else (24, 24, 12), min_shape=draw(st.sampled_from([1, 3, 3, 5])), far=True))
    # periodic axes need at least 3 cells so that a droplet cannot touch its own image
    g["periodic"] = [bool(p and n >= 3) for p, n in zip(g["periodic"], g["shape"])]
    geom = O.CartGeom(g["origin"], g["shape"], g["spacing"], g["periodic"])
    dim = geom.dim
    dnorm = float(np.linalg.norm(geom.dx))
    r_hi = min(((geom.L[a] - 2 * geom.dx[a]) / 2 if geom.periodic[a] else geom.L[a] / 2) for a in range(dim))
    r_lo = 0.3 * float(geom.dx.min())
    drops = []
    if r_hi > r_lo:
        n_want = draw(st.integers(1, 4))
        r_cap = max(r_hi / (1 + 0.7 * (n_want - 1)), min(r_hi, 1.01 * r_lo))
        for _ in range(n_want):
            if draw(st.integers(0, 3)) == 0:
                R = r_lo * (r_cap / r_lo) ** draw(st.floats(0, 1, **finite))
            else:
                R = min(r_cap, 0.6 * dnorm) + draw(st.floats(0, 1, **finite)) * max(0.0, r_cap - 0.6 * dnorm)
            pos = []
            corner = draw(st.integers(0, 3)) == 0  # straddle all periodic faces at once
            for a in range(dim):
                if geom.periodic[a]:
                    kind = "face" if corner else draw(st.sampled_from(["in", "in", "out", "far", "face", "centre"]))
                    if kind == "in":
                        x = geom.origin[a] + draw(st.floats(0, 1, **finite)) * geom.L[a]
                    elif kind == "out":
                        x = geom.origin[a] + draw(st.floats(-1, 2, **finite)) * geom.L[a]
                    elif kind == "far":  # several periods away from the box
                        x = geom.origin[a] + draw(st.floats(-4, 5, **finite)) * geom.L[a]
                    elif kind == "face":  # near / on a periodic face -> straddles
                        x = geom.origin[a] + draw(st.sampled_from([0.0, 1.0])) * geom.L[a] + draw(st.floats(-1, 1, **finite)) * geom.dx[a]
                    else:  # exactly on a cell centre
                        x = geom.origin[a] + (draw(st.integers(0, geom.shape[a] - 1)) + 0.5) * geom.dx[a]
                else:
                    x = geom.origin[a] + R + draw(st.floats(0, 1, **finite)) * (geom.L[a] - 2 * R)
                pos.append(float(x))
            # well separated: centre distance >= R_i + R_j + 2|dx| (shrink R if necessary)
            allowed = R
            for d in drops:
                allowed = min(allowed, geom.dist(pos, d["position"]) - d["radius"] - 2 * dnorm * (1 + MARGIN))
            if allowed < R:
                R = allowed * (1 - MARGIN)
            if R <= r_lo:
                continue
            R = gen.r6(R * (1 - 1e-5))
            # (rounded relative to the lower corner of the box, which may be far away from the origin)
            pos = [float(geom.origin[a] + gen.r6(x - geom.origin[a])) if not geom.periodic[a] else float(x) for a, x in enumerate(pos)]
            # rounding may move a droplet slightly across a wall: re-clip on non-periodic axes
            ok = True
            for a in range(dim):
                if not geom.periodic[a]:
                    lo, hi = geom.origin[a] + R, geom.origin[a] + geom.L[a] - R
                    if lo > hi:
                        ok = False
                    pos[a] = float(min(max(pos[a], lo), hi))
            if not ok:
                continue
            if not np.any(geom.dist_to(pos) < R):
                continue  # not resolvable: covers no cell centre
            drops.append({"position": pos, "radius": R})
    return {"family": "cart", "grid": g, "droplets": drops}


@st.composite
def sym_specs(draw, tier):
    fam = draw(st.sampled_from(["polar", "spherical", "cyl", "cyl"]))
    if fam in ("polar", "spherical"):
        n = draw(st.integers(2, 48 if tier == "thorough" else 24))
        dr = gen.r6(10 ** draw(st.floats(-2, 1.5, **finite)))
        R = gen.r6(dr * draw(st.floats(0.5001, n - 1, **finite)))
        if draw(st.integers(0, 5)) == 2:  # the droplet reaches the outer cells or fills the whole grid (every cell centre covered)
            R = gen.r6(dr * draw(st.sampled_from([n - 0.75, n - 0.5001, n - 0.4999, n - 0.25, float(n), n + 0.25, n + 0.49])))
        return {"family": fam, "grid": {"n": n, "dr": dr}, "droplets": [{"radius": R}]}
    g = draw(gen.cyl_grids(max_shape=(12, 32) if tier == "quick" else (20, 48)))
    dr, dz, nr, nz = g["dr"], g["dz"], g["nr"], g["nz"]
    Lz = nz * dz
    dnorm = math.hypot(dr, dz)
    r_hi = min(nr * dr, Lz / 2)
    r_lo = 0.3 * min(dr, dz)
    drops = []
    if r_hi > r_lo:
        n_want = draw(st.integers(1, 3))
        r_cap = max(r_hi / (1 + 0.7 * (n_want - 1)), min(r_hi, 1.01 * r_lo))
        for _ in range(n_want):
            if draw(st.integers(0, 3)) == 0:
                R = r_lo * (r_cap / r_lo) ** draw(st.floats(0, 1, **finite))
            else:
                R = min(r_cap, 0.6 * dnorm) + draw(st.floats(0, 1, **finite)) * max(0.0, r_cap - 0.6 * dnorm)
            z = g["z0"] + R + draw(st.floats(0, 1, **finite)) * (Lz - 2 * R)
            allowed = R
            for d in drops:
                sep = abs(z - d["z"])
                if g["periodic_z"]:  # the image topology is periodic even though rendering does not wrap
                    sep = min(sep, Lz - sep)
                allowed = min(allowed, sep - d["radius"] - 2 * dnorm * (1 + MARGIN))
            if allowed < R:
                R = allowed * (1 - MARGIN)
            if R <= r_lo:
                continue
            R = gen.r6(R * (1 - 1e-5))
            z = float(min(max(gen.r6(z), g["z0"] + R), g["z0"] + Lz - R))
            rc = (np.arange(nr) + 0.5) * dr
            zc = g["z0"] + (np.arange(nz) + 0.5) * dz
            if not np.any(np.hypot(rc[:, None], zc[None, :] - z) < R):
                continue
            drops.append({"z": z, "radius": R})
    return {"family": "cyl", "grid": g, "droplets": drops}


class C01(Property):
    id = "C01"
    rule = (
        "Hypothesis constructs a grid (Cartesian 1-3D with every periodicity mask, anisotropy 0.4-2.5, spacings over 3.5 decades, "
        "arbitrary origins; polar, spherical, cylindrical with both periodic_z) and 1-4 spherical droplets that satisfy the stated "
        "preconditions by construction (covers >= 1 cell centre; centre distance >= R_i+R_j+2|dx|; not cut by a non-periodic wall; "
        "2R <= L-2dx on periodic axes), with centres inside, outside the box (up to several periods away on periodic axes), near periodic faces and exactly on cell centres. The "
        "emulsion is rendered with get_phasefield and located with locate_droplets (threshold 0.5, no refinement). Oracle: "
        "independent covered-cell set under the minimal-image metric -> count, volume (sum of cell volumes), per-axis half-cell "
        "bound on the centre, position inside the bounds on periodic axes. Non-trivial = >= 2 droplets, a droplet straddling a "
        "periodic face, anisotropy >= 1.5, or a symmetric grid; distinct = distinct spec hash. Exhaustive companion ('corner-sweep'): one "
        "droplet at every sub-cell offset (7 per axis) and radius (up to 8) around the corner of fully / partly periodic 2-D and 3-D boxes with "
        "unequal cell counts and spacings."
    )
    assumptions = [
        "knife-edge cases (a cell centre within 1e-9 R of the droplet surface) are skipped and counted",
        "cylindrical grids: rendered droplets are kept inside the z-range (py-pde 0.58 does not wrap z in difference_vector)",
        "tolerances: volume rtol 1e-9, half-cell bound x (1+1e-9)",
    ]

    def budget(self, tier):
        return {"examples": 8000 if tier == "quick" else 240000, "shards": 12 if tier == "quick" else 16}

    def strategy(self, tier):
        return st.one_of(cart_specs(tier), cart_specs(tier), cart_specs(tier), cart_specs(tier), cart_specs(tier), sym_specs(tier))

    # Finite "corner sweep": one droplet near the corner of a fully (or partly) periodic box whose axes have different
    # cell counts and spacings, for every sub-cell offset and radius of a small lattice.  Small droplets near a corner
    # cover only some of the 2^d corner regions, which is where the bookkeeping of periodic images is most delicate.
    CORNER_GRIDS = {
        "quick": [
            {"origin": [-1.5, 2.25], "shape": [5, 8], "spacing": [1.0, 0.75], "periodic": [True, True]},
            {"origin": [0.3, -7.0], "shape": [7, 4], "spacing": [0.5, 1.25], "periodic": [True, True]},
            {"origin": [2.0, -1.0, 0.5], "shape": [4, 5, 6], "spacing": [1.0, 0.8, 1.3], "periodic": [True, True, True]},
            {"origin": [0.0, 0.0, 0.0], "shape": [8, 7, 9], "spacing": [1.0, 1.0, 1.0], "periodic": [True, True, True]},
        ],
        "thorough": [
            {"origin": [0.0, 0.0, 0.0], "shape": [8, 7, 9], "spacing": [1.0, 1.0, 1.0], "periodic": [True, True, True]},
            {"origin": [-1.5, 2.25], "shape": [5, 8], "spacing": [1.0, 0.75], "periodic": [True, True]},
            {"origin": [0.3, -7.0], "shape": [7, 4], "spacing": [0.5, 1.25], "periodic": [True, True]},
            {"origin": [0.0, 0.0], "shape": [12, 40], "spacing": [1.0, 1.0], "periodic": [True, True]},
            {"origin": [2.0, -1.0, 0.5], "shape": [4, 5, 6], "spacing": [1.0, 0.8, 1.3], "periodic": [True, True, True]},
            {"origin": [0.0, 3.0, -2.0], "shape": [7, 5, 4], "spacing": [0.6, 1.0, 1.5], "periodic": [True, True, True]},
            {"origin": [0.0, 3.0, -2.0], "shape": [6, 9, 5], "spacing": [1.0, 1.0, 1.0], "periodic": [True, False, True]},
            {"origin": [1.0, 1.0, 1.0], "shape": [9, 4, 6], "spacing": [0.9, 1.1, 1.0], "periodic": [False, True, True]},
        ],
    }
    CORNER_OFFSETS = [-1.1, -0.6, -0.3, 0.0, 0.2, 0.45, 0.9]
    CORNER_RADII = [0.55, 0.75, 0.95, 1.2, 1.45, 1.8, 2.05, 2.4]

    def exhaustive_jobs(self, tier):
        jobs = [{"domain": "corner-sweep", "grid": g, "radius_factor": rf} for g in self.CORNER_GRIDS[tier] for rf in self.CORNER_RADII]
        # emulsions of very many droplets (cluster counts beyond block sizes, key widths and small integer types)
        for side, per in [(6, [True, True]), (12, [True, False]), (17, [True, True]), (33, [True, True])] + ([(33, [False, True]), (46, [True, True])] if tier != "quick" else []):
            jobs.append({"domain": "many-droplets", "many": side, "periodic": per})
        return jobs

    def expand(self, job):
        import itertools

        if "many" in job:
            # side x side droplets on a jittered square lattice (pitch 8 cells) that is displaced by an arbitrary amount along the
            # periodic axes, so that droplets straddle the boundaries - also the ones that are labelled last
            side, per = job["many"], job["periodic"]
            rng = np.random.default_rng([side, int(per[0]), int(per[1])])
            dx = 0.7
            g = {"origin": [-3.0, 5.0], "shape": [8 * side, 8 * side], "spacing": [dx, dx], "periodic": per}
            off = [float(rng.uniform(0, 8)) if p else 4.0 for p in per]
            drops = []
            for i in range(side):
                for j in range(side):
                    c = [g["origin"][a] + dx * (off[a] + 8 * k + float(rng.uniform(-0.35, 0.35))) for a, k in enumerate((i, j))]
                    drops.append({"position": [gen.r6(x) for x in c], "radius": gen.r6(dx * float(rng.uniform(1.2, 2.2)))})
            yield {"family": "cart", "grid": g, "droplets": drops, "sweep": "many"}
            return

        g = job["grid"]
        geom = O.CartGeom(g["origin"], g["shape"], g["spacing"], g["periodic"])
        R = job["radius_factor"] * float(geom.dx.max())
        choices = []
        for a in range(geom.dim):
            if geom.periodic[a]:
                if 2 * R > geom.L[a] - 2 * geom.dx[a]:
                    return
                choices.append([geom.origin[a] + o * geom.dx[a] for o in self.CORNER_OFFSETS])
            else:  # non-periodic axis: a few positions well inside the box
                lo, hi = geom.origin[a] + R, geom.origin[a] + geom.L[a] - R
                if lo > hi:
                    return
                choices.append([lo, 0.5 * (lo + hi) + 0.3 * geom.dx[a], hi])
        for pos in itertools.product(*choices):
            pos = [float(x) for x in pos]
            if np.any(geom.dist_to(pos) < R):
                yield {"family": "cart", "grid": g, "droplets": [{"position": pos, "radius": float(R)}], "sweep": "corner"}

    def check(self, spec, ctx: Ctx):
        fam = spec["family"]
        if fam == "cart":
            self._cart(spec, ctx)
        elif fam in ("polar", "spherical"):
            self._radial(spec, ctx)
        else:
            self._cyl(spec, ctx)

    # ------------------------------------------------------------------------------------
    def _cart(self, spec, ctx):
        from droplets import Emulsion, SphericalDroplet
        from droplets.image_analysis import locate_droplets

        geom, grid = gen.build_cart(spec["grid"])
        dim = geom.dim
        drops = spec["droplets"]
        em = Emulsion([SphericalDroplet(*gen.as_given(d["position"], d["radius"], d)) for d in drops])
        field = em.get_phasefield(grid)
        if len(drops) % 2 == 0:
            # the same emulsion rendered and located first on a sibling grid (other periodicity, other spacing) must leave no trace
            try:
                sib = gen.build_cart(dict(spec["grid"], periodic=[not p for p in spec["grid"]["periodic"]], spacing=[1.5 * x for x in spec["grid"]["spacing"]]))[1]
                locate_droplets(em.get_phasefield(sib))
            except Exception:  # noqa: BLE001 - not judged
                pass
        res = locate_droplets(field)
        aniso = float(geom.dx.max() / geom.dx.min())
        ctx.cls(f"cart{dim}d", f"per{sum(geom.periodic)}", f"n{len(drops)}" if len(drops) <= 4 else "n>" + str(max(t for t in (4, 32, 128, 256, 1024, 2048) if len(drops) > t)))
        covered = []
        straddle = 0
        # rounding of coordinates: a cell centre / droplet centre of magnitude cmax is only known to a few ulp
        cmax = float(max(np.abs(np.r_[geom.origin, geom.origin + geom.L]).max(), max((abs(x) for d in drops for x in d["position"]), default=0.0)))
        ulp_slack = 64 * np.finfo(float).eps * cmax
        if cmax > 1e5 * float(geom.L.max()):
            ctx.cls("far-from-origin")
        for d in drops:
            dist = geom.dist_to(d["position"])
            if np.any(np.abs(dist - d["radius"]) <= 1e-9 * d["radius"] + ulp_slack):
                ctx.skip("knife-edge")
                return
            cov = dist < d["radius"]
            covered.append(cov)
            pieces = 0
            for a in range(dim):
                if geom.periodic[a]:
                    proj = cov.any(axis=tuple(b for b in range(dim) if b != a))
                    if proj[0] and proj[-1] and not proj.all():
                        pieces += 1
            if pieces:
                straddle = max(straddle, pieces)
        if straddle:
            ctx.cls(f"straddles-{straddle}-axes")
        if aniso >= 1.5:
            ctx.cls("aniso>=1.5")
        ctx.nontrivial = len(drops) >= 2 or straddle > 0 or aniso >= 1.5
        if not ctx.require(len(res) == len(drops), "cart:count", f"{len(drops)} droplets rendered, {len(res)} located"):
            return
        found = [(np.asarray(r.position, float), float(r.volume)) for r in res]
        if not ctx.require(all(f[0].shape == (dim,) for f in found), "cart:position-shape", "a located droplet has a position of the wrong shape"):
            return
        F = np.array([f[0] for f in found], float).reshape(len(found), dim)
        taken = np.zeros(len(found), bool)
        for d, cov in zip(drops, covered):
            c = np.asarray(d["position"], float)
            dd = np.linalg.norm(geom.min_image(F - c), axis=1)
            dd[taken] = np.inf
            j = int(np.argmin(dd))
            taken[j] = True
            p, v = found[j]
            Vexp = cov.sum() * geom.cell_volume
            # (py-pde derives the cell size from the stored bounds of the box: far from the origin it carries their rounding)
            ctx.require(abs(v - Vexp) <= (1e-9 + 8 * dim * ulp_slack / 64 / float(geom.dx.min())) * Vexp, "cart:volume", f"droplet at {c} R={d['radius']}: volume {v} expected {Vexp} ({int(cov.sum())} cells)")
            delta = np.abs(geom.min_image(p - c))
            ctx.require(bool(np.all(delta <= geom.dx / 2 * (1 + 1e-9) + ulp_slack)), "cart:centre", f"droplet at {c} R={d['radius']}: found {p}, |delta|={delta} > dx/2={geom.dx / 2}")
            for a in range(dim):
                if geom.periodic[a]:
                    lo, hi = geom.origin[a], geom.origin[a] + geom.L[a]
                    eps = 1e-12 * max(abs(lo), abs(hi), geom.L[a])
                    ctx.require(lo - eps <= p[a] <= hi + eps, "cart:outside-bounds", f"position {p} axis {a} outside [{lo},{hi}]")

    def _radial(self, spec, ctx):
        from pde import PolarSymGrid, SphericalSymGrid

        from droplets import Emulsion, SphericalDroplet
        from droplets.image_analysis import locate_droplets

        n, dr = spec["grid"]["n"], spec["grid"]["dr"]
        R = spec["droplets"][0]["radius"]
        dim = 2 if spec["family"] == "polar" else 3
        grid = (PolarSymGrid if dim == 2 else SphericalSymGrid)(n * dr, n)
        rc = (np.arange(n) + 0.5) * dr
        if np.any(np.abs(rc - R) <= 1e-9 * R):
            ctx.skip("knife-edge")
            return
        ncov = int((rc < R).sum())
        ctx.cls(spec["family"])
        ctx.nontrivial = True
        em = Emulsion([SphericalDroplet(np.zeros(dim), R)])
        res = locate_droplets(em.get_phasefield(grid))
        if not ctx.require(len(res) == 1, "radial:count", f"1 droplet rendered (R={R}, {ncov} cells), {len(res)} located"):
            return
        d = res[0]
        ctx.require(np.array_equal(np.asarray(d.position), np.zeros(dim)), "radial:position", f"position {d.position}")
        ctx.require(abs(d.radius - R) <= dr / 2 * (1 + 1e-9), "radial:radius", f"radius {d.radius} vs {R}, dr={dr}")
        Vexp = O.sphere_volume(ncov * dr, dim)
        ctx.require(abs(d.volume - Vexp) <= 1e-9 * Vexp, "radial:volume", f"volume {d.volume} expected {Vexp}")

    def _cyl(self, spec, ctx):
        from droplets import Emulsion, SphericalDroplet
        from droplets.image_analysis import locate_droplets

        g = spec["grid"]
        grid = gen.build_cyl(g)
        drops = spec["droplets"]
        nr, nz, dr, dz = g["nr"], g["nz"], g["dr"], g["dz"]
        rc = (np.arange(nr) + 0.5) * dr
        zc = g["z0"] + (np.arange(nz) + 0.5) * dz
        cv = gen.cyl_cell_volumes(g)
        ctx.cls("cyl", f"periodic_z:{g['periodic_z']}", f"n{len(drops)}")
        ctx.nontrivial = len(drops) >= 1
        covered = []
        for d in drops:
            dist = np.hypot(rc[:, None], zc[None, :] - d["z"])
            if np.any(np.abs(dist - d["radius"]) <= 1e-9 * d["radius"]):
                ctx.skip("knife-edge")
                return
            covered.append(dist < d["radius"])
        em = Emulsion([SphericalDroplet(*gen.as_given([0.0, 0.0, d["z"]], d["radius"], d)) for d in drops])
        res = locate_droplets(em.get_phasefield(grid))
        if len(drops) >= 1:
            # the analysis leaves the grid object as it found it: the same emulsion rendered and located once more on the very same
            # grid object is what is judged below
            res = locate_droplets(em.get_phasefield(grid))
            ctx.cls("second-analysis-on-the-same-grid")
        if not ctx.require(len(res) == len(drops), "cyl:count", f"{len(drops)} droplets rendered, {len(res)} located"):
            return
        found = [(np.asarray(r.position, float), float(r.volume)) for r in res]
        used = set()
        for d, cov in zip(drops, covered):
            order = sorted((j for j in range(len(found)) if j not in used), key=lambda j: abs(found[j][0][2] - d["z"]))
            j = order[0]
            used.add(j)
            p, v = found[j]
            Vexp = float(cv[cov].sum())
            ctx.require(abs(v - Vexp) <= 1e-9 * Vexp, "cyl:volume", f"droplet z={d['z']} R={d['radius']}: volume {v} expected {Vexp}")
            ctx.require(p[0] == 0 and p[1] == 0, "cyl:off-axis", f"position {p}")
            ctx.require(abs(p[2] - d["z"]) <= dz / 2 * (1 + 1e-9), "cyl:centre", f"droplet z={d['z']} R={d['radius']}: found z={p[2]}, dz/2={dz / 2}")
            if g["periodic_z"]:
                lo, hi = g["z0"], g["z0"] + nz * dz
                eps = 1e-12 * max(abs(lo), abs(hi))
                ctx.require(lo - eps <= p[2] <= hi + eps, "cyl:outside-bounds", f"z={p[2]} outside [{lo},{hi}]")


PROP = C01()
