"""C15 - results do not depend on the number of worker processes or on scheduling."""

from __future__ import annotations

import itertools

import numpy as np
from hypothesis import strategies as st

from vf import c15_harness as H
from vf import gen
from vf.engine import Ctx, Property

finite = gen.finite
NPROCS = [2, 2, 3, 5, "auto"]


@st.composite
def specs(draw, tier):
    kind = draw(st.sampled_from(["refine", "refine", "storage"]))
    dim = draw(st.sampled_from([1, 2, 2]))
    n = draw(st.integers(20, 40)) if dim == 1 else draw(st.integers(16, 28))
    spec = {"kind": kind, "dim": dim, "n": n, "periodic": draw(st.booleans()), "seed": draw(st.integers(0, 2**31)), "num_processes": draw(st.sampled_from(NPROCS))}
    spec["field"] = draw(st.sampled_from(["droplets", "droplets", "noise"]))
    # one candidate may be impossible to fit (a not-a-number pixel next to a droplet): whatever the library does about it - raise
    # or carry on - it must do the same serially and in parallel
    spec["nan_pixel"] = draw(st.integers(0, 5)) == 0
    spec["diffuse_candidates"] = draw(st.booleans())
    spec["ndrops"] = draw(st.integers(2, 6))
    spec["refine_args"] = draw(
        st.sampled_from(
            [None, None, {"vmin": None, "vmax": None}, {"adjust_values": True}, {"tolerance": 1e-6}, {"least_squares_params": {}}, {"least_squares_params": {"max_nfev": 40}}, {"adjust_values": True, "least_squares_params": {"method": "trf"}}, {"vmin": None, "vmax": None, "adjust_values": True, "least_squares_params": {}}, {"vmin": None, "vmax": None, "adjust_values": True, "least_squares_params": {}},
             # documented pass-through of solver options: robust loss functions (whose scale parameter has a default of its own)
             {"vmin": None, "vmax": None, "least_squares_params": {"loss": "soft_l1"}}, {"vmin": None, "vmax": None, "adjust_values": True, "least_squares_params": {"loss": "huber"}}, {"least_squares_params": {"loss": "cauchy", "f_scale": 0.1}}, {"vmax": None, "least_squares_params": {"loss": "soft_l1", "max_nfev": 60}}]
        )
    )
    spec["modes"] = draw(st.sampled_from([0, 0, 2])) if dim == 2 else 0
    if kind == "storage":
        spec["nframes"] = draw(st.integers(2, 6))
        spec["refine"] = draw(st.booleans())
        spec["dup_times"] = draw(st.integers(0, 3)) == 0  # some storages hold two frames with the same time stamp
        ntasks = spec["nframes"]
    else:
        ntasks = 8
    if draw(st.integers(0, 3)) == 1:  # the box far away from the origin (coordinates much larger than the droplets)
        spec["far"] = float(draw(st.sampled_from([-1.0, 1.0])) * 10.0 ** draw(st.integers(4, 7)))
    spec["delay_order"] = draw(st.permutations(list(range(ntasks))))
    spec["delay_step"] = draw(st.sampled_from([0.02, 0.05, 0.08]))
    return spec


def make_grid(spec):
    from pde import CartesianGrid

    o = float(spec.get("far", 0.0)) * spec["n"]
    return CartesianGrid([(o, o + float(spec["n"]))] * spec["dim"], [spec["n"]] * spec["dim"], periodic=spec["periodic"])


def make_field(spec, grid, k=0):
    from pde import ScalarField

    from droplets import DiffuseDroplet, Emulsion

    rng = np.random.default_rng(spec["seed"] + 7919 * k)
    n, dim = spec["n"], spec["dim"]
    if spec["field"] == "noise":
        data = rng.random(grid.shape)
        # coarse-grained noise gives a handful of irregular candidates
        from scipy import ndimage

        data = ndimage.uniform_filter(data, size=3, mode="wrap")
        return ScalarField(grid, (data - data.min()) / (np.ptp(data) + 1e-300))
    drops = []
    for _ in range(spec["ndrops"]):
        r = rng.uniform(1.5, 3.0)
        p = rng.uniform(0, n, dim)
        if all(np.linalg.norm((p - q + n / 2) % n - n / 2) > r + rq + 3 for q, rq in drops):
            drops.append((p, r))
    o = float(spec.get("far", 0.0)) * n
    em = Emulsion([DiffuseDroplet(p + o, r, 1.0) for p, r in drops])
    f = em.get_phasefield(grid)
    if spec["seed"] % 3 == 0:  # droplets of different brightness (local contrast differs from candidate to candidate)
        f.data[...] = 0.0
        for d in em:
            f.data += rng.uniform(0.7, 1.8) * d.get_phase_field(grid).data
    f.data += 0.01 * rng.standard_normal(f.data.shape)
    if spec.get("nan_pixel") and spec.get("kind") == "refine" and k == 0 and drops:
        p0, r0 = drops[0]
        idx = tuple(int(x) % n for x in np.floor(p0 + np.eye(dim)[0] * (r0 + 1.0)))
        f.data[idx] = np.nan
    return f


def em_records(em):
    return [(type(d).__name__, d.data.tobytes()) for d in em]


class C15(Property):
    id = "C15"
    rule = (
        "Schedule control by delay injection. Hypothesis draws a field (2-6 well-formed droplets with a little noise, or coarse-"
        "grained noise with several irregular candidates; 1-D / 2-D, periodic or not), refine options (automatic / fitted intensity levels, tolerance, user-supplied least_squares_params; a fresh copy per call), a process count from "
        "{2, 3, 5, 'auto'} and a permutation that assigns every task (candidate droplet / stored frame) a delay of 0..7 x "
        "20-80 ms, which forces the workers to finish in that order. The harness swaps droplets.image_analysis.refine_droplet "
        "(resp. locate_droplets, looked up at call time) for a module-level wrapper that sleeps and then calls the original; the "
        "delay table exists in every forked worker. Checked calls: locate_droplets(refine=True, num_processes=n), refine_droplets("
        "candidates, num_processes=n) EmulsionTimeCourse.from_storage(num_processes=n) and DropletTrackList.from_storage(num_processes=n) on storages of 2-6 frames (some with a "
        "repeated time stamp). Oracle: identical length, order, classes and record bytes as the serial run; two serial runs are "
        "byte-identical. Thorough tier additionally enumerates all 24 completion orders of 4 tasks. Non-trivial = >= 2 tasks and a "
        "delay order that reverses at least one pair; distinct = distinct spec hash."
    )
    assumptions = [
        "the schedule space explored is the set of completion orders of whole tasks (tasks share no state; pre-emption inside a task cannot influence the result)",
        "delays only reorder completion; no timing is used as a verdict",
        "process pools are forked (default start method of this platform), so harness wrappers and delay tables exist in the workers",
    ]

    def budget(self, tier):
        return {"examples": 144 if tier == "quick" else 1600, "shards": 16, "procs": 16}

    def strategy(self, tier):
        return specs(tier)

    def exhaustive_jobs(self, tier):
        if tier == "quick":
            return []
        perms = list(itertools.permutations(range(4)))
        return [{"domain": "all-completion-orders-of-4-tasks", "perms": perms[i::8]} for i in range(8)]

    def expand(self, job):
        for perm in job["perms"]:
            for nproc in (2, 4):
                yield {"kind": "refine", "dim": 2, "n": 24, "periodic": True, "seed": 12345, "num_processes": nproc, "field": "droplets", "ndrops": 6, "refine_args": None, "modes": 0, "delay_order": list(perm) + [4, 5, 6, 7], "delay_step": 0.05}
                yield {"kind": "storage", "dim": 2, "n": 20, "periodic": False, "seed": 777, "num_processes": nproc, "field": "droplets", "ndrops": 3, "refine_args": None, "modes": 0, "nframes": 4, "refine": False, "dup_times": False, "delay_order": list(perm), "delay_step": 0.05}

    def check(self, spec, ctx: Ctx):
        import droplets.image_analysis as ia

        grid = make_grid(spec)
        nproc = spec["num_processes"]
        order = list(spec["delay_order"])
        ctx.cls(spec["kind"], f"procs:{nproc}", f"field:{spec['field']}", f"dim{spec['dim']}")
        if spec.get("far"):
            ctx.cls("far-from-origin")
        H._orig_refine = ia.refine_droplet if ia.refine_droplet is not H.delayed_refine else H._orig_refine
        H._orig_locate = ia.locate_droplets if ia.locate_droplets is not H.delayed_locate else H._orig_locate
        orig_refine, orig_locate = H._orig_refine, H._orig_locate
        try:
            if spec["kind"] == "refine":
                self._refine(spec, ctx, grid, nproc, order, ia)
            else:
                self._storage(spec, ctx, grid, nproc, order, ia)
        finally:
            ia.refine_droplet = orig_refine
            ia.locate_droplets = orig_locate
            H.REFINE_DELAYS.clear()
            H.LOCATE_DELAYS.clear()

    def _refine(self, spec, ctx, grid, nproc, order, ia):
        field = make_field(spec, grid)
        import copy

        extra = {"interface_width": 1.0} if spec.get("diffuse_candidates") else {}

        def kw_fresh():  # every call gets its own (deep) copy of the user-supplied options
            return dict(refine=True, modes=spec["modes"], refine_args=copy.deepcopy(spec["refine_args"]), **extra)

        def outcome(fn):
            """the records of the result, or the type of the exception that was raised"""
            try:
                return em_records(fn())
            except Exception as exc:  # noqa: BLE001 - compared, not judged: the same failure is expected from every process count
                return ("raised", type(exc).__name__)

        kw = kw_fresh()
        if spec.get("nan_pixel") and spec["field"] == "droplets":
            ctx.cls("unfittable-candidate")
            cands = ia.locate_droplets(field, modes=spec["modes"], **extra)
            o_ser = outcome(lambda: ia.locate_droplets(field, num_processes=1, **kw_fresh()))
            o_par = outcome(lambda: ia.locate_droplets(field, num_processes=nproc, **kw_fresh()))
            ctx.nontrivial = len(cands) >= 2
            ctx.require(o_ser == o_par, f"refine:parallel-differs:unfittable:procs={nproc}", f"with a candidate that cannot be fitted the serial run gives {str(o_ser)[:120]} and the parallel run {str(o_par)[:120]}")
            o_ser2 = outcome(lambda: ia.refine_droplets(field, [c.copy() for c in cands], num_processes=1, **(kw_fresh()["refine_args"] or {})))
            o_par2 = outcome(lambda: ia.refine_droplets(field, [c.copy() for c in cands], num_processes=nproc, **(kw_fresh()["refine_args"] or {})))
            ctx.require(o_ser2 == o_par2, f"refine_droplets:parallel-differs:unfittable:procs={nproc}", f"refine_droplets with an unfittable candidate: serial {str(o_ser2)[:120]} vs parallel {str(o_par2)[:120]}")
            return
        cands = ia.locate_droplets(field, modes=spec["modes"], **extra)
        base = ia.locate_droplets(field, num_processes=1, **kw_fresh())
        again = ia.locate_droplets(field, num_processes=1, **kw_fresh())
        ctx.require(em_records(base) == em_records(again), "refine:serial-not-repeatable", "two serial runs differ")
        ntask = len(cands)
        for k, c in enumerate(cands):
            H.REFINE_DELAYS[H.droplet_key(c)] = spec["delay_step"] * order[k % len(order)]
        ranks = [order[k % len(order)] for k in range(ntask)]
        reversed_pair = any(ranks[i] > ranks[j] for i in range(ntask) for j in range(i + 1, ntask))
        ctx.nontrivial = ntask >= 2 and reversed_pair
        ctx.cls(f"tasks:{min(ntask, 6)}")
        ia.refine_droplet = H.delayed_refine
        par = ia.locate_droplets(field, num_processes=nproc, **kw_fresh())
        ctx.require(em_records(par) == em_records(base), f"refine:parallel-differs:procs={nproc}", f"locate_droplets(refine=True, num_processes={nproc}) differs from the serial result ({len(par)} vs {len(base)} droplets; completion ranks {ranks})")
        def as_given(seq):  # the candidates as a list, a tuple, an Emulsion, a generator or an iterator
            from droplets import Emulsion

            how = spec["seed"] % 5
            items = [c.copy() for c in seq]
            return [items, tuple(items), Emulsion(items), (c for c in items), iter(items)][how]

        lst = ia.refine_droplets(field, as_given(cands), num_processes=nproc, **(kw_fresh()["refine_args"] or {}))
        ia.refine_droplet = H._orig_refine
        ser = ia.refine_droplets(field, as_given(cands), num_processes=1, **(kw_fresh()["refine_args"] or {}))
        ctx.require(em_records(lst) == em_records(ser), f"refine_droplets:parallel-differs:procs={nproc}", f"refine_droplets(num_processes={nproc}) differs from the serial list (completion ranks {ranks})")
        # rough initial guesses: diffuse candidates displaced by more than their radius (whatever the fit makes of them, it is the same
        # serially and in parallel)
        from droplets import DiffuseDroplet

        def rough():
            out = []
            for k, c in enumerate(cands):
                g = DiffuseDroplet.from_droplet(c, interface_width=1.0) if not isinstance(c, DiffuseDroplet) else c.copy()
                p = np.array(g.position, float)
                p[k % len(p)] += (1.3 if k % 2 else -1.6) * float(g.radius)
                g.position = p
                out.append(g)
            return out

        if cands and spec["modes"] == 0:
            o_ser = outcome(lambda: ia.refine_droplets(field, rough(), num_processes=1, **(kw_fresh()["refine_args"] or {})))
            o_par = outcome(lambda: ia.refine_droplets(field, rough(), num_processes=nproc, **(kw_fresh()["refine_args"] or {})))
            ctx.require(o_ser == o_par, f"refine_droplets:parallel-differs:rough-candidates:procs={nproc}", "refine_droplets on rough diffuse candidates: the parallel result differs from the serial one")

    def _storage(self, spec, ctx, grid, nproc, order, ia):
        from pde import MemoryStorage

        from droplets import EmulsionTimeCourse

        nf = spec["nframes"]
        frames = [make_field(spec, grid, k) for k in range(nf)]
        times = [0.5 * k for k in range(nf)]
        if spec.get("dup_times") and nf >= 2:
            times[-1] = times[-2]
            ctx.cls("repeated-time-stamp")
        elif spec["seed"] % 4 == 1 and nf >= 3:  # a storage continued after a restart: the time stamps are not monotonic
            times[-1] = times[-3] + 0.25
            ctx.cls("non-monotonic-time-stamps")
        st_ = MemoryStorage()
        st_.start_writing(frames[0])
        for f, t in zip(frames, times):
            st_.append(f, t)
        st_.end_writing()
        kw = dict(refine=spec["refine"], threshold="auto", progress=False)
        base = EmulsionTimeCourse.from_storage(st_, num_processes=1, **kw)
        again = EmulsionTimeCourse.from_storage(st_, num_processes=1, **kw)

        def rec(tc):
            return [float(t) for t in tc.times], [em_records(e) for e in tc.emulsions]

        ctx.require(rec(base) == rec(again), "storage:serial-not-repeatable", "two serial runs differ")
        # a result belongs to the caller: continuing one of them (another frame appended) must neither change the other result nor what
        # a further analysis of the same storage returns
        snap_base = rec(base)
        try:
            from droplets import Emulsion

            again.append(Emulsion([]), 1e3)
            third = EmulsionTimeCourse.from_storage(st_, num_processes=1, **kw)
            ok_third = rec(third) == snap_base and rec(base) == snap_base
        except Exception as exc:  # noqa: BLE001
            ok_third = False
            ctx.cls(f"after-edit-raises:{type(exc).__name__}")
        ctx.require(ok_third, "storage:result-aliases-storage-or-other-result", "after appending a frame to one result, the other result or a repeated analysis of the same storage differs")
        for k, f in enumerate(frames):
            H.LOCATE_DELAYS[H.frame_key(f)] = spec["delay_step"] * order[k % len(order)]
        ranks = [order[k % len(order)] for k in range(nf)]
        ctx.nontrivial = nf >= 2 and any(ranks[i] > ranks[j] for i in range(nf) for j in range(i + 1, nf))
        ctx.cls(f"tasks:{min(nf, 6)}")
        ia.locate_droplets = H.delayed_locate
        par = EmulsionTimeCourse.from_storage(st_, num_processes=nproc, **kw)
        ctx.require(rec(par) == rec(base), f"storage:parallel-differs:procs={nproc}", f"from_storage(num_processes={nproc}) differs from the serial result (times {par.times} vs {base.times}; sizes {[len(e) for e in par.emulsions]} vs {[len(e) for e in base.emulsions]}; completion ranks {ranks})")
        # droplet tracks obtained directly from the storage (documented default threshold) - serial vs parallel vs two steps
        from droplets import DropletTrackList

        def trec(tl):
            return [([float(t) for t in tr.times], em_records(tr.droplets)) for tr in tl]

        method = "overlap" if spec["seed"] % 2 == 0 else "distance"
        ia.locate_droplets = H._orig_locate
        tl_ser = DropletTrackList.from_storage(st_, method=method, refine=spec["refine"], num_processes=1, progress=False)
        etc_def = EmulsionTimeCourse.from_storage(st_, refine=spec["refine"], num_processes=1, progress=False)
        tl_two = DropletTrackList.from_emulsion_time_course(etc_def, method=method, progress=False)
        ctx.require(trec(tl_ser) == trec(tl_two), "tracks-from-storage:differs-from-two-steps", f"DropletTrackList.from_storage differs from tracking the time course obtained from the same storage ({len(tl_ser)} vs {len(tl_two)} tracks)")
        ia.locate_droplets = H.delayed_locate
        tl_par = DropletTrackList.from_storage(st_, method=method, refine=spec["refine"], num_processes=nproc, progress=False)
        ctx.require(trec(tl_par) == trec(tl_ser), f"tracks-from-storage:parallel-differs:procs={nproc}", f"DropletTrackList.from_storage(num_processes={nproc}) differs from the serial result ({len(tl_par)} vs {len(tl_ser)} tracks; completion ranks {ranks})")


PROP = C15()
