"""C02 - each located droplet is one connected component under the grid's topology."""

from __future__ import annotations

import itertools

import numpy as np
from hypothesis import strategies as st

from vf import gen
from vf import oracles as O
from vf.engine import Ctx, Property

finite = gen.finite


def _match(adj, n_right):
    """maximum bipartite matching; adj[i] = list of right nodes; returns match_left list"""
    match_r = [-1] * n_right
    match_l = [-1] * len(adj)

    def try_aug(i, seen):
        for j in adj[i]:
            if j in seen:
                continue
            seen.add(j)
            if match_r[j] == -1 or try_aug(match_r[j], seen):
                match_r[j] = i
                match_l[i] = j
                return True
        return False

    for i in range(len(adj)):
        try_aug(i, set())
    return match_l


# --- mask strategies -----------------------------------------------------------------------
@st.composite
def _mask_bits(draw, shape, periodic):
    n = int(np.prod(shape))
    kind = draw(st.sampled_from(["cells", "noise", "boxes", "walk", "boxes", "walk", "mixed"]))
    if kind == "cells" and n > 80:
        kind = "noise"
    mask = np.zeros(shape, bool)
    nd = len(shape)
    if kind == "cells":
        cells = draw(st.lists(st.booleans(), min_size=n, max_size=n))
        mask = np.array(cells, bool).reshape(shape)
    if kind in ("noise", "mixed"):
        seed = draw(st.integers(0, 2**31))
        dens = draw(st.sampled_from([0.05, 0.15, 0.3, 0.45, 0.6, 0.7]))
        mask |= np.random.default_rng(seed).random(shape) < (dens if kind == "noise" else dens / 4)
    if kind in ("boxes", "mixed"):
        for _ in range(draw(st.integers(1, 4))):
            sl = np.zeros(shape, bool)
            idx = []
            for a in range(nd):
                start = draw(st.integers(0, shape[a] - 1))
                size = draw(st.integers(1, max(1, shape[a] // 2 + 1)))
                ii = np.arange(start, start + size)
                ii = ii % shape[a] if periodic[a] or draw(st.booleans()) else ii[ii < shape[a]]
                idx.append(ii)
            sl[np.ix_(*idx)] = True
            mask |= sl
    if kind in ("walk", "mixed"):
        for _ in range(draw(st.integers(1, 3))):
            pos = [draw(st.integers(0, shape[a] - 1)) for a in range(nd)]
            steps = draw(st.lists(st.tuples(st.integers(0, nd - 1), st.sampled_from([-1, 1])), min_size=0, max_size=3 * max(shape)))
            # persistent walks: repeat each step a few times so that the walk gets somewhere
            rep = draw(st.integers(1, 3))
            mask[tuple(pos)] = True
            for ax, s in steps:
                for _r in range(rep):
                    pos[ax] = (pos[ax] + s) % shape[ax]
                    mask[tuple(pos)] = True
    return gen.mask_to_bits(mask)


@st.composite
def cart_specs(draw, tier):
    big = tier == "thorough"
    g = draw(gen.cart_grids(max_shape=(40, 16, 8) if not big else (64, 24, 10), min_shape=1, far=True))
    bits = draw(_mask_bits(tuple(g["shape"]), g["periodic"]))
    via = draw(st.sampled_from(["mask", "mask", "threshold"]))
    spec = {"family": "cart", "grid": g, "bits": bits, "via": via}
    if via == "threshold":
        lo = gen.r6(draw(st.floats(-5, 5, **finite)))
        gap = gen.r6(draw(st.floats(0.01, 5, **finite)))
        spec["levels"] = [lo, lo + gap, lo + gap * draw(st.sampled_from([0.25, 0.5, 0.75]))]
    return spec


@st.composite
def cyl_specs(draw, tier):
    g = draw(gen.cyl_grids(max_shape=(8, 16) if tier == "quick" else (10, 24)))
    if draw(st.booleans()) and g["nz"] >= 4:
        # on-axis objects that are lopsided along z: a thick disc with a thin filament along the axis, placed anywhere
        # (also across the periodic boundary), so that parts of the object lie far from its centre of mass
        nr, nz = g["nr"], g["nz"]
        mask = np.zeros((nr, nz), bool)
        for _ in range(draw(st.integers(1, 2))):
            z0 = draw(st.integers(0, nz - 1))
            thick = draw(st.integers(1, max(1, nz // 4)))
            rad = draw(st.integers(1, nr))
            flen = draw(st.integers(0, nz - thick - 1))
            side = draw(st.sampled_from([1, -1]))
            zz = np.arange(z0, z0 + thick)
            ff = np.arange(z0 + thick, z0 + thick + flen) if side > 0 else np.arange(z0 - flen, z0)
            if g["periodic_z"]:
                zz, ff = zz % nz, ff % nz
            else:
                zz, ff = zz[(zz >= 0) & (zz < nz)], ff[(ff >= 0) & (ff < nz)]
            mask[:rad, zz] = True
            mask[0, ff] = True
        bits = gen.mask_to_bits(mask)
    else:
        bits = draw(_mask_bits((g["nr"], g["nz"]), (False, g["periodic_z"])))
    return {"family": "cyl", "grid": g, "bits": bits, "via": "mask"}


@st.composite
def periodic_noise_specs(draw, tier):
    """fully periodic 2-D / 3-D grids with percolation-like noise: many multi-piece components around corners"""
    dim = draw(st.sampled_from([2, 2, 3]))
    cap = (16 if tier == "quick" else 28) if dim == 2 else (7 if tier == "quick" else 10)
    g = draw(gen.cart_grids(dims=(dim,), max_shape=(cap, cap, cap), min_shape=3, periodic=True))
    shape = tuple(g["shape"])
    seed = draw(st.integers(0, 2**31))
    dens = draw(st.sampled_from([0.2, 0.3, 0.4, 0.5, 0.55, 0.6] if dim == 2 else [0.1, 0.15, 0.2, 0.25, 0.3]))
    mask = np.random.default_rng(seed).random(shape) < dens
    return {"family": "cart", "grid": g, "bits": gen.mask_to_bits(mask), "via": "mask"}


def specs(tier):
    return st.one_of(cart_specs(tier), cart_specs(tier), cyl_specs(tier), periodic_noise_specs(tier))


def many_components_spec(n_target, seed, periodic=(True, True)):
    """A 2-D image with about `n_target` components (counts beyond what small grids can hold: block sizes, small integer
    label types, chunked distance evaluations): isolated single cells on a sparse lattice plus motifs whose equal-volume spheres
    overlap although the clusters do not touch (a ring around a single cell, parallel bars), placed anywhere - also across
    the periodic faces and among the last labels."""
    rng = np.random.default_rng([n_target, seed])
    ncols = 2 * int(rng.integers(14, 24))
    n_motifs = int(rng.integers(2, 7))
    nrows = 2 * int(np.ceil((n_target + 60 * n_motifs) / (ncols // 2))) + 2 * int(rng.integers(0, 4))
    shape = (nrows, ncols)
    mask = np.zeros(shape, bool)
    blocked = np.zeros(shape, bool)

    def put(cells):
        idx = []
        for i, j in cells:
            if not periodic[0] and not 0 <= i < nrows or not periodic[1] and not 0 <= j < ncols:
                continue
            idx.append((i % nrows, j % ncols))
        for i, j in idx:
            mask[i, j] = True
        for i, j in idx:
            for di in (-2, -1, 0, 1, 2):
                for dj in (-2, -1, 0, 1, 2):
                    ii, jj = i + di, j + dj
                    if (periodic[0] or 0 <= ii < nrows) and (periodic[1] or 0 <= jj < ncols):
                        blocked[ii % nrows, jj % ncols] = True

    for m in range(n_motifs):
        # the last motif sits in the last rows, so that its components carry the largest labels
        i0 = int(rng.integers(0, nrows)) if m < n_motifs - 1 else nrows - 9 - int(rng.integers(0, 3))
        j0 = int(rng.integers(0, ncols))
        # keep motifs apart from each other
        if blocked[np.ix_(np.arange(i0 - 1, i0 + 9) % nrows, np.arange(j0 - 1, j0 + 9) % ncols)].any():
            continue
        kind = int(rng.integers(0, 3))
        if kind == 0:  # ring around a single cell
            k = int(rng.integers(5, 8))
            cells = [(i0 + a, j0 + b) for a in range(k) for b in range(k) if a in (0, k - 1) or b in (0, k - 1)] + [(i0 + k // 2, j0 + k // 2)]
        elif kind == 1:  # a long bar and a short parallel one, one empty row apart
            k = int(rng.integers(5, 9))
            cells = [(i0, j0 + b) for b in range(k)] + [(i0 + 2, j0 + b) for b in range(1, 1 + int(rng.integers(1, k - 2)))]
        else:  # U shape around a single cell
            k = int(rng.integers(5, 8))
            cells = [(i0 + a, j0 + b) for a in range(k) for b in range(k) if a == 0 or b in (0, k - 1)] + [(i0 + k // 2, j0 + k // 2)]
        put(cells)
    have = len(O.components(mask, periodic))
    sites = [(i, j) for i in range(0, nrows - 1, 2) for j in range(0, ncols - 1, 2) if not blocked[i, j]]
    order = rng.permutation(len(sites))
    for k in order[: max(0, n_target - have)]:
        mask[sites[k]] = True
    spacing = [gen.r6(float(rng.uniform(0.3, 3))), gen.r6(float(rng.uniform(0.3, 3)))]
    g = {"origin": [gen.r6(float(rng.uniform(-5, 5))), 0.0], "shape": [nrows, ncols], "spacing": spacing, "periodic": list(periodic)}
    return {"family": "cart", "grid": g, "bits": gen.mask_to_bits(mask), "via": "mask"}


# exhaustive domains: (name, kind, shape) ------------------------------------------------
SPACINGS = [[1.0, 0.5, 2.0], [0.3, 0.7, 0.45]]
ORIGINS = [[-1.0, 0.25, 3.0], [0.0, 0.0, 0.0]]


class C02(Property):
    id = "C02"
    rule = (
        "Binary images fed to locate_droplets_in_mask (and to locate_droplets with a two-valued field + threshold). "
        "Exhaustive: every image on small Cartesian grids for every periodicity mask (plus all 65536 images of the fully periodic 4x4 grid), on small cylindrical grids, a sweep of lopsided on-axis objects (disc + axial filament) over every z-translation of periodic 4x8 / 4x9 cylinders, and a sweep of winding on-axis objects (tube + spoke) accompanied by on-axis blobs at every z-position of periodic 5x7 / 5x8 cylinders "
        "for both periodic_z; random: Hypothesis-built masks (cell-wise, noise at 5-70 % density, wrapped boxes, "
        "persistent random walks = snakes/rings/winding paths, mixtures, percolation-like noise on fully periodic 2-D/3-D grids) on grids up to 40 / 16x16 / 8^3 cells "
        "(cylindrical up to 8x16) with anisotropic spacings and arbitrary origins.  Oracle: independent BFS "
        "component labelling with periodic unwrapping; maximum bipartite matching of returned droplets to components "
        "by volume and (non-winding) unwrapped centre of mass modulo the period; pairwise sphere non-overlap under the "
        "minimal-image metric; every omitted component must overlap an at-least-as-large one.  Non-trivial = at least "
        "2 components, or a component touching a periodic face; distinct = distinct spec hash."
    )
    assumptions = [
        "position is not judged for components that wind around a periodic axis; omissions involving a winding component are accepted",
        "cylindrical grids: both the plain mean and the volume-weighted mean of the cell centres are accepted as 'centre of mass'; sphere non-overlap among returned droplets is judged with the distance along the axis (winding objects excepted); pairs that overlap only through the periodic boundary are the open finding F27 (known_findings.json), excluded by that signature and counted",
        "tolerances: volumes rtol 1e-9, positions 1e-9 x box size",
    ]

    def budget(self, tier):
        return {"examples": 6400 if tier == "quick" else 120000, "shards": 12 if tier == "quick" else 16}

    def strategy(self, tier):
        return specs(tier)

    # --- exhaustive sweeps ----------------------------------------------------------------
    def exhaustive_jobs(self, tier):
        jobs = []
        cart = [(6,), (10,), (3, 3), (3, 4), (2, 2, 3)] if tier == "quick" else [(8,), (14,), (3, 3), (3, 4), (4, 4), (2, 5), (2, 2, 3), (2, 3, 3)]
        for shape in cart:
            n = int(np.prod(shape))
            nd = len(shape)
            variants = [0] if (tier == "quick" or n > 14) else [0, 1]
            for per in itertools.product([False, True], repeat=nd):
                for v in variants:
                    total = 2**n
                    chunk = max(1, total // (1 if total <= 4096 else 16 if total <= 70000 else 64))
                    for lo in range(0, total, chunk):
                        jobs.append({"domain": "cart-" + "x".join(map(str, shape)), "family": "cart", "shape": list(shape), "periodic": list(per), "variant": v, "lo": lo, "hi": min(total, lo + chunk)})
        if tier == "quick":  # fully periodic 4x4: all 65536 images (corner-straddling multi-piece components)
            total = 2**16
            for lo in range(0, total, total // 32):
                jobs.append({"domain": "cart-4x4-fully-periodic", "family": "cart", "shape": [4, 4], "periodic": [True, True], "variant": 0, "lo": lo, "hi": lo + total // 32})
        # images with many components (a count ladder around the powers of two: block sizes, label types, chunked evaluations)
        ladder = [33, 70, 129, 257, 300, 404, 530] if tier == "quick" else [33, 70, 129, 257, 300, 404, 530, 770, 1025, 1100, 2060]
        for n in ladder:
            for per in ([True, True], [True, False], [False, False]):
                for seed in range(1 if n > 300 else 2):
                    jobs.append({"domain": "cart-many-components", "family": "many", "n": n, "periodic": per, "seed": seed})
        cyl = [(2, 4), (3, 3), (2, 5)] if tier == "quick" else [(2, 4), (3, 3), (2, 6), (3, 5), (4, 4)]
        for shape in cyl:
            n = shape[0] * shape[1]
            for per in (False, True):
                total = 2**n
                chunk = max(1, total // (1 if total <= 4096 else 16))
                for lo in range(0, total, chunk):
                    jobs.append({"domain": f"cyl-{shape[0]}x{shape[1]}", "family": "cyl", "shape": list(shape), "periodic": per, "lo": lo, "hi": min(total, lo + chunk)})
        # lopsided on-axis objects (thick disc + thin filament along the axis) at every z-translation of a periodic cylinder
        for nz in ([8, 9] if tier == "quick" else [8, 9, 12, 15]):
            jobs.append({"domain": "cyl-lopsided-sweep", "family": "cyl-lopsided", "shape": [4, nz]})
        # an on-axis object that winds around the periodic z-axis (tube + spoke to the axis) together with ordinary on-axis blobs
        # at every z-position, also across the periodic boundary
        for nz in ([7, 8] if tier == "quick" else [7, 8, 11, 12]):
            jobs.append({"domain": "cyl-winding-plus-blobs", "family": "cyl-winding", "shape": [5, nz]})
        return jobs

    def expand(self, job):
        if job["family"] == "many":
            yield many_components_spec(job["n"], job["seed"], tuple(job["periodic"]))
            return
        if job["family"] == "cyl-winding":
            nr, nz = job["shape"]
            g = {"nr": nr, "nz": nz, "dr": 0.5, "dz": 0.8, "z0": -1.3, "periodic_z": True}
            for rt in (2, 3, 4):  # radial index of the tube
                for zs in range(nz):  # position of the spoke
                    for z0 in range(nz):  # first cell of the blob
                        for blen in (1, 2, 3):
                            for brad in (1, 2):
                                if brad >= rt:  # the blob would touch the tube
                                    continue
                                zz = np.arange(z0, z0 + blen) % nz
                                if any(abs(((z - zs + nz // 2) % nz) - nz // 2) <= 1 for z in zz):
                                    continue  # the blob would touch the spoke
                                mask = np.zeros((nr, nz), bool)
                                mask[rt, :] = True
                                mask[: rt + 1, zs] = True
                                mask[:brad, zz] = True
                                yield {"family": "cyl", "grid": g, "bits": gen.mask_to_bits(mask), "via": "mask"}
            return
        if job["family"] == "cyl-lopsided":
            nr, nz = job["shape"]
            g = {"nr": nr, "nz": nz, "dr": 0.5, "dz": 0.8, "z0": -1.3, "periodic_z": True}
            for z0 in range(nz):
                for thick in (1, 2):
                    for rad in (1, 2, 4):
                        for flen in range(0, nz - thick):
                            for side in (1, -1):
                                mask = np.zeros((nr, nz), bool)
                                mask[:rad, np.arange(z0, z0 + thick) % nz] = True
                                ff = np.arange(z0 + thick, z0 + thick + flen) if side > 0 else np.arange(z0 - flen, z0)
                                mask[0, ff % nz] = True
                                yield {"family": "cyl", "grid": g, "bits": gen.mask_to_bits(mask), "via": "mask"}
            return
        if job["family"] == "cart":
            nd = len(job["shape"])
            v = job["variant"]
            g = {"origin": ORIGINS[v][:nd], "shape": job["shape"], "spacing": SPACINGS[v][:nd], "periodic": job["periodic"]}
            for bits in range(job["lo"], job["hi"]):
                yield {"family": "cart", "grid": g, "bits": bits, "via": "mask"}
        else:
            nr, nz = job["shape"]
            g = {"nr": nr, "nz": nz, "dr": 0.5, "dz": 0.8, "z0": -1.3, "periodic_z": job["periodic"]}
            for bits in range(job["lo"], job["hi"]):
                yield {"family": "cyl", "grid": g, "bits": bits, "via": "mask"}

    # --- the check -----------------------------------------------------------------------
    def _locate(self, grid, mask, spec):
        from pde import ScalarField

        from droplets.image_analysis import locate_droplets, locate_droplets_in_mask

        if spec.get("via") == "threshold":
            lo, hi, t = spec["levels"]
            # the same binary image in one of several representations: float64 / float32 levels, a boolean field with the default
            # or an automatic threshold, small signed integers with a negative background
            rep = spec["bits"] % 5
            if rep == 1:
                field = ScalarField(grid, np.where(mask, hi, lo).astype(np.float32), dtype=np.float32)
                t = float(np.float32(lo) + (np.float32(hi) - np.float32(lo)) / 2)
            elif rep == 2:
                return locate_droplets(ScalarField(grid, mask, dtype=bool), threshold=[0.5, "auto", "extrema"][spec["bits"] // 5 % 3], minimal_radius=-np.inf)
            elif rep == 3:
                field = ScalarField(grid, np.where(mask, 0, -1).astype(np.int8), dtype=np.int8)
                return locate_droplets(field, threshold=[-0.5, "auto", "extrema"][spec["bits"] // 5 % 3], minimal_radius=-np.inf)
            elif rep == 4:
                field = ScalarField(grid, np.where(mask, 3, 1).astype(int), dtype=int)
                return locate_droplets(field, threshold=[2, 2.5, "auto"][spec["bits"] // 5 % 3], minimal_radius=-np.inf)
            else:
                field = ScalarField(grid, np.where(mask, hi, lo))
            return locate_droplets(field, threshold=t, minimal_radius=-np.inf)
        return locate_droplets_in_mask(ScalarField(grid, mask, dtype=bool))

    def check(self, spec, ctx: Ctx):
        if spec["family"] == "cart":
            self._check_cart(spec, ctx)
        else:
            self._check_cyl(spec, ctx)

    def _check_cart(self, spec, ctx):
        from droplets.emulsions import Emulsion

        geom, grid = gen.build_cart(spec["grid"])
        mask = gen.bits_to_mask(spec["bits"], geom.shape)
        if spec["bits"] % 4 == 0 and geom.dim <= 2:
            # the same image analysed first on a sibling grid (other periodicity, other spacing) must leave no trace
            try:
                sib = dict(spec["grid"], periodic=[not p for p in spec["grid"]["periodic"]], spacing=[2.0 * x for x in spec["grid"]["spacing"]])
                self._locate(gen.build_cart(sib)[1], mask.copy(), spec)
            except Exception:  # noqa: BLE001 - not judged
                pass
        res = self._locate(grid, mask.copy(), spec)
        if spec["bits"] % 8 == 1:
            # the same image analysed again on the very same grid object (after another image): identical result, judged below
            try:
                first = [(type(d).__name__, d.data.tobytes()) for d in res]
                self._locate(grid, ~mask, spec)
                res = self._locate(grid, mask.copy(), spec)
                if [(type(d).__name__, d.data.tobytes()) for d in res] != first:
                    ctx.fail("cart:repeated-analysis-differs", "the same image analysed twice on the same grid object gives different droplets")
            except TypeError:
                pass
        comps = O.components(mask, geom.periodic)
        nd = geom.dim
        scale = float(geom.L.max())
        cmax = float(np.abs(np.r_[geom.origin, geom.origin + geom.L]).max())
        tol = 1e-9 * scale + 64 * np.finfo(float).eps * cmax  # the second term: rounding of a coordinate of magnitude cmax
        if cmax > 1e5 * scale:
            ctx.cls("far-from-origin")
        orc = []
        touches = False
        for c in comps:
            idx = np.array([i for i, _ in c["cells"]])
            off = np.array([o for _, o in c["cells"]])
            pts = geom.origin + (idx + off * np.array(geom.shape) + 0.5) * geom.dx
            V = len(c["cells"]) * geom.cell_volume
            for a in range(nd):
                if geom.periodic[a] and (idx[:, a].min() == 0 or idx[:, a].max() == geom.shape[a] - 1):
                    touches = True
            orc.append((V, pts.mean(0), any(c["wind"]), O.sphere_radius_from_volume(V, nd)))
        ncomp = len(orc)
        nwind = sum(1 for o in orc if o[2])
        ctx.cls(f"cart{nd}d", f"per{sum(geom.periodic)}", f"comps:{min(ncomp, 4)}{'+' if ncomp > 4 else ''}", f"via:{spec.get('via')}")
        if ncomp > 32:
            ctx.cls("comps>" + str(max(t for t in (32, 64, 128, 256, 512, 1024, 2048) if ncomp > t)))
        if nwind:
            ctx.cls("winding")
        if touches:
            ctx.cls("touches-periodic-face")
        ctx.nontrivial = ncomp >= 2 or touches
        if not ctx.require(isinstance(res, Emulsion), "cart:type", f"returned {type(res).__name__}"):
            return
        if ncomp == 0:
            ctx.require(len(res) == 0, "cart:nonempty-for-empty-image", f"{len(res)} droplets in an empty image")
            return
        # (1) injective matching droplet -> component
        pos = [np.asarray(d.position, float) for d in res]
        rad = [float(d.radius) for d in res]
        vol = [float(d.volume) for d in res]
        oV = np.array([o[0] for o in orc])
        oC = np.array([o[1] for o in orc])
        oW = np.array([o[2] for o in orc], bool)
        oR = np.array([o[3] for o in orc])
        # (py-pde derives the cell size from the stored bounds of the box: far from the origin it carries their rounding)
        vtol = 1e-9 + 8 * nd * np.finfo(float).eps * cmax / float(geom.dx.min())
        adj = []
        for p, v in zip(pos, vol):
            if not (np.shape(p) == (nd,) and np.all(np.isfinite(p)) and np.isfinite(v)):
                adj.append([])
                continue
            near = oW | (np.abs(geom.min_image(p - oC)).max(axis=1) <= tol)
            adj.append([int(j) for j in np.flatnonzero((np.abs(v - oV) <= vtol * oV) & near)])
        ml = _match(adj, ncomp)
        used = {j for j in ml if j >= 0}
        if any(j < 0 for j in ml):
            i = ml.index(-1)
            volm = [j for j, (V, c, w, _r) in enumerate(orc) if abs(vol[i] - V) <= vtol * V]
            if not volm:
                ctx.fail("cart:volume", f"droplet V={vol[i]:.6g} at {pos[i]} matches no component volume {[round(o[0], 6) for o in orc]}")
            elif adj[i]:
                ctx.fail("cart:duplicate", f"droplet at {pos[i]} V={vol[i]:.6g}: its component is already taken by another returned droplet")
            else:
                ctx.fail("cart:position", f"droplet V={vol[i]:.6g} at {pos[i]}; components with that volume at {[orc[j][1].tolist() for j in volm]}")
        # (2) no sphere overlap among returned droplets
        if len(pos) >= 2 and all(np.shape(p) == (nd,) for p in pos):
            P, R = np.array(pos), np.array(rad)
            for i in range(len(pos) - 1):
                dd = np.linalg.norm(geom.min_image(P[i] - P[i + 1 :]), axis=1)
                for j in np.flatnonzero(~(dd >= R[i] + R[i + 1 :] - tol))[:3]:
                    ctx.fail("cart:overlap", f"returned droplets {i},{i + 1 + int(j)} overlap: dist {dd[j]:.6g} < {R[i] + R[i + 1 + j]:.6g}")
        # (3) omitted components must be justified
        if all(j >= 0 for j in ml):
            for i, (V, c, w, r) in enumerate(orc):
                if i in used:
                    continue
                big = oV >= V * (1 - 1e-9)
                big[i] = False
                ok = bool(np.any(big & (w | oW | (np.linalg.norm(geom.min_image(c - oC), axis=1) < r + oR + tol))))
                if ok:
                    ctx.cls("omitted-by-overlap")
                else:
                    ctx.fail("cart:omitted", f"component V={V:.6g} at {c} left out although no at-least-as-large component overlaps it")

    def _check_cyl(self, spec, ctx):
        from droplets.emulsions import Emulsion

        g = spec["grid"]
        grid = gen.build_cyl(g)
        nr, nz = g["nr"], g["nz"]
        mask = gen.bits_to_mask(spec["bits"], (nr, nz))
        per = bool(g["periodic_z"])
        res = self._locate(grid, mask.copy(), spec)
        # the analysis leaves the grid object as it found it: a second image analysed on the very same grid object (first a
        # shifted copy, then the same image again) gives the result of the first analysis again - the repeated one is judged below
        try:
            first = [(type(d).__name__, d.data.tobytes()) for d in res]
            self._locate(grid, np.roll(mask, 1, axis=1), spec)
            res = self._locate(grid, mask.copy(), spec)
            if [(type(d).__name__, d.data.tobytes()) for d in res] != first:
                ctx.fail("cyl:repeated-analysis-differs", "the same image analysed twice on the same grid object gives different droplets")
        except TypeError:
            pass  # malformed result: reported by the type check below
        comps = O.components(mask, (False, per))
        cv = gen.cyl_cell_volumes(g)
        Lz = nz * g["dz"]
        tol = 1e-9 * max(Lz, g["dr"] * nr)
        orc = []
        for c in comps:
            idx = np.array([i for i, _ in c["cells"]])
            if idx[:, 0].min() != 0:
                continue
            off = np.array([o for _, o in c["cells"]])
            z = g["z0"] + (idx[:, 1] + off[:, 1] * nz + 0.5) * g["dz"]
            w = cv[idx[:, 0], idx[:, 1]]
            V = float(w.sum())
            orc.append((V, float(z.mean()), float((z * w).sum() / V), bool(c["wind"][1]), O.sphere_radius_from_volume(V, 3)))
        ncomp = len(orc)
        # discriminators for known findings: which special input class is present
        tag = ""
        if any(o[3] for o in orc):
            tag += "+winding"
        for c in comps:
            idx = np.array([i for i, _ in c["cells"]])
            off = np.array([o for _, o in c["cells"]])
            zz = idx[:, 1] + off[:, 1] * nz
            if idx[:, 0].min() == 0 and not c["wind"][1] and zz.max() - zz.min() + 1 > nz:
                tag += "+long"
                break
        if per and "+winding" in tag:
            # a winding on-axis object some of whose cells are connected to the rest only through a path that wraps around the axis
            # more than once: in the image padded by one period on either side these cells form a separate object (input class of the
            # recorded finding F28)
            padded = np.pad(mask, [[0, 0], [nz, nz]], mode="wrap")
            comps_p = O.components(padded, (False, False))
            label_of = {}
            for k, cp in enumerate(comps_p):
                for (i, j), _o in cp["cells"]:
                    if nz <= j < 2 * nz:
                        label_of[(i, j - nz)] = k
            for c in comps:
                if c["wind"][1] and any(i == 0 for (i, _j), _o in c["cells"]):
                    if len({label_of[(i, j)] for (i, j), _o in c["cells"]}) > 1:
                        tag += "+multiwrap"
                        break
        ctx.cls("cyl", f"periodic_z:{per}", f"on-axis:{min(ncomp, 2)}{'+' if ncomp > 2 else ''}", f"comps:{min(len(comps), 4)}")
        if "+multiwrap" in tag:
            ctx.cls("winding-object-connected-through-several-periods")
        touches = per and bool(mask[:, 0].any() or mask[:, -1].any())
        if touches:
            ctx.cls("touches-periodic-face")
        if "+winding" in tag:
            ctx.cls("winding")
        if "+long" in tag:
            ctx.cls("longer-than-period")
        ctx.nontrivial = len(comps) >= 2 or touches
        if not ctx.require(isinstance(res, Emulsion), "cyl:type", f"returned {type(res).__name__}"):
            return
        if ncomp == 0:
            ctx.require(len(res) == 0, "cyl:nonempty-without-on-axis-component", f"{len(res)} droplets although no component touches the axis")
            return

        def dz(a, b):
            d = a - b
            if per:
                d -= Lz * np.round(d / Lz)
            return abs(d)

        pos = [np.asarray(d.position, float) for d in res]
        vol = [float(d.volume) for d in res]
        for p in pos:
            ctx.require(p.shape == (3,) and p[0] == 0 and p[1] == 0, "cyl:off-axis-position", f"position {p} not on the axis")
        adj = []
        for p, v in zip(pos, vol):
            cand = []
            for j, (V, zm, zw, w, _r) in enumerate(orc):
                if abs(v - V) <= 1e-9 * V and (w or dz(p[2], zm) <= tol or dz(p[2], zw) <= tol):
                    cand.append(j)
            adj.append(cand)
        ml = _match(adj, ncomp)
        used = {j for j in ml if j >= 0}
        if any(j < 0 for j in ml):
            i = ml.index(-1)
            volm = [j for j, o in enumerate(orc) if abs(vol[i] - o[0]) <= 1e-9 * o[0]]
            if not volm:
                ctx.fail("cyl:volume" + tag, f"droplet V={vol[i]:.6g} z={pos[i][2]:.6g} matches no on-axis component volume {[round(o[0], 6) for o in orc]}")
            elif adj[i]:
                ctx.fail("cyl:duplicate" + tag, f"droplet z={pos[i][2]:.6g} V={vol[i]:.6g}: its component is already taken by another returned droplet")
            else:
                ctx.fail("cyl:position" + tag, f"droplet V={vol[i]:.6g} z={pos[i][2]:.6g}; components with that volume at z={[(o[1], o[2]) for j, o in enumerate(orc) if j in volm]}")
            return
        # returned droplets never overlap one another as equal-volume spheres.  Two readings of the distance are told apart: the plain
        # distance along the axis inside the box (signature cyl:overlap), and - on periodic cylinders - pairs that only overlap through
        # the periodic boundary (cyl:overlap+through-boundary)
        rad = [float(d.radius) for d in res]
        for i in range(len(pos)):
            for j in range(i + 1, len(pos)):
                if orc[ml[i]][3] or orc[ml[j]][3]:
                    continue  # the position of a winding object is not specified
                d_plain = abs(pos[i][2] - pos[j][2])
                if d_plain < rad[i] + rad[j] - tol:
                    ctx.fail("cyl:overlap", f"returned droplets at z={pos[i][2]:.6g} (r={rad[i]:.6g}) and z={pos[j][2]:.6g} (r={rad[j]:.6g}) overlap as spheres")
                elif per and dz(pos[i][2], pos[j][2]) < rad[i] + rad[j] - tol:
                    ctx.fail("cyl:overlap+through-boundary", f"returned droplets at z={pos[i][2]:.6g} (r={rad[i]:.6g}) and z={pos[j][2]:.6g} (r={rad[j]:.6g}) overlap as spheres through the periodic boundary")
        for i, (V, zm, zw, w, r) in enumerate(orc):
            if i in used:
                continue
            ok = False
            for j, (V2, zm2, zw2, w2, r2) in enumerate(orc):
                if j == i or V2 < V * (1 - 1e-9):
                    continue
                if w or w2 or min(dz(zm, zm2), dz(zw, zw2), dz(zm, zw2), dz(zw, zm2)) < r + r2 + tol:
                    ok = True
            if ok:
                ctx.cls("omitted-by-overlap")
            else:
                ctx.fail("cyl:omitted" + tag, f"on-axis component V={V:.6g} z={zm:.6g} left out although no at-least-as-large component overlaps it")


PROP = C02()
