"""C14 - tracking during a simulation equals analysing the stored fields afterwards."""

from __future__ import annotations

import json
import math
import os
import shutil
import tempfile

import numpy as np
from hypothesis import strategies as st

from vf import gen
from vf.engine import Ctx, Property
from vf.props.c09 import any_grid, build_grid, field_spec, make_field

finite = gen.finite


@st.composite
def settings(draw, dim):
    s = {
        "threshold": draw(st.sampled_from([0.5, 0.5, "auto", "extrema", "mean", "otsu", 0.3])),
        "minimal_radius": draw(st.sampled_from([0, 0, "cell", "big", -1.0])),
        "refine": draw(st.sampled_from([False, False, True])),
        "refine_args": draw(st.sampled_from([None, None, {"vmin": None, "vmax": None}, {"tolerance": 1e-6}, {"adjust_values": True}])),
        "modes": draw(st.sampled_from([0, 0, 0, 1, 2, 4])) if dim >= 2 else 0,
    }
    return s


@st.composite
def specs(draw, tier):
    mode = draw(st.sampled_from(["direct", "direct", "direct", "lengthscale", "lengthscale", "solver"]))
    spec = {"mode": mode}
    if mode == "solver":
        n = draw(st.sampled_from([8, 12, 16]))
        spec["grid"] = {"family": "cart", "origin": [0.0, 0.0], "shape": [n, n], "spacing": [1.0, 1.0], "periodic": [draw(st.booleans())] * 2}
        spec["pde"] = draw(st.sampled_from(["diffusion", "allen-cahn", "cahn-hilliard"]))
        spec["t_range"] = draw(st.sampled_from([0.5, 1.0, 2.0]))
        spec["dt"] = draw(st.sampled_from([0.005, 0.01]))
        spec["interrupts"] = draw(st.sampled_from([0.1, 0.25, 0.5, 1.0]))
        spec["seed"] = draw(st.integers(0, 2**31))
        spec["settings"] = draw(settings(2))
        spec["with_file"] = draw(st.booleans())
        return spec
    g = draw(any_grid(tier))
    spec["grid"] = g
    dim = {"polar": 2, "spherical": 3, "cyl": 3}.get(g["family"]) or len(g["shape"])
    nframes = draw(st.integers(0, 8 if tier == "quick" else 12))
    frames = []
    for _ in range(nframes):
        f = draw(field_spec())
        if draw(st.integers(0, 4)) == 0:
            f = {**f, "kind": "constant"}  # frame without droplets
        frames.append(f)
    spec["frames"] = frames
    t0 = gen.r6(draw(st.floats(-10, 10, **finite)))
    steps = [gen.r6(draw(st.floats(0.01, 5, **finite))) for _ in range(nframes)]
    times, t = [], t0
    for s in steps:
        times.append(gen.r6(t))
        t += s
    for i in range(1, nframes):
        if times[i] <= times[i - 1]:
            times[i] = times[i - 1] + 0.5
    tk = draw(st.sampled_from(["increasing", "increasing", "increasing", "repeat", "restart", "fine-after-coarse", "through-zero"]))
    if tk == "repeat" and nframes >= 2:  # a continued run stores its first frame again: the same time twice
        i = draw(st.integers(1, nframes - 1))
        times[i] = times[i - 1]
    elif tk == "restart" and nframes >= 2:  # the tracker / storage is reused for a second run that starts earlier again
        i = draw(st.integers(1, nframes - 1))
        times[i:] = [gen.r6(times[0] + (x - times[i])) for x in times[i:]]
    elif tk == "fine-after-coarse" and nframes >= 3:  # output interval shrinks by many orders of magnitude
        i = draw(st.integers(2, nframes - 1))
        for j in range(i, nframes):
            times[j] = times[j - 1] + 1e-7 * (times[1] - times[0])
    elif tk == "through-zero" and nframes >= 2:
        i = draw(st.integers(1, nframes - 1))
        shift = times[i]
        times = [gen.r6(x - shift) for x in times]
        times[i] = 0.0
    spec["times"] = times
    spec["time_kind"] = tk
    if mode == "direct":
        spec["settings"] = draw(settings(dim))
        spec["source"] = draw(st.sampled_from([None, None, 0, 1, "callable"]))
        spec["existing"] = draw(st.integers(0, 2))  # frames already present in a supplied time course
        spec["with_file"] = draw(st.booleans())
        spec["storage"] = draw(st.sampled_from(["memory", "memory", "file"]))
        if draw(st.integers(0, 5)) == 0:
            # the tracker is obtained from the time course itself (EmulsionTimeCourse.tracker): default analysis settings
            spec["route"] = "timecourse"
            spec["settings"] = {"threshold": 0.5, "minimal_radius": 0, "refine": False, "refine_args": None, "modes": 0}
            spec["source"] = None
    else:
        spec["method"] = draw(st.sampled_from(["structure_factor_mean", "structure_factor_maximum", "droplet_detection"]))
        spec["source"] = draw(st.sampled_from([None, None, 1]))
        spec["with_file"] = draw(st.booleans())
        spec["verbose"] = draw(st.booleans())
    return spec


def em_records(em):
    return [(type(d).__name__, d.data.tobytes()) for d in em]


def _scratch():
    d = tempfile.mkdtemp(prefix="vf-c14-")
    return d


class C14(Property):
    id = "C14"
    rule = (
        "Histories of fields fed to the trackers. Direct drive: 0-8 (thorough 12) frames of generated fields (noise, blobs, binary, "
        "smooth, constant = droplet-free) on any grid family with irregular times (increasing; with a repeated stamp; restarting at an earlier time; a spacing that shrinks by seven orders of magnitude; passing through exactly 0) are passed to DropletTracker."
        "initialize/handle/finalize with drawn settings (threshold rule or number, minimal_radius, refine, refine_args, "
        "perturbation_modes, source None / index into a FieldCollection / callable, optionally an existing time course with frames, "
        "optionally a file) and in parallel appended to a MemoryStorage. Solver runs: DiffusionPDE / AllenCahnPDE / CahnHilliardPDE "
        "on 8x8-16x16 grids (numpy backend, Euler) with the droplet tracker and storage.tracker on the same interrupts. Oracle: "
        "tracker.data must equal EmulsionTimeCourse.from_storage(storage, same settings) frame by frame (times, classes, record "
        "bytes) and the written file must read back equal. LengthScaleTracker: same histories x three methods; each recorded value "
        "must be bit-equal to get_length_scale(frame, method) or NaN when that call raises; handle never raises; JSON file equals the "
        "lists. Non-trivial = >= 2 frames and (a non-default setting or a droplet-free frame between frames with droplets); distinct "
        "= distinct spec hash."
    )
    assumptions = [
        "py-pde's MemoryStorage, solvers and extract_field are trusted; solver runs use tiny grids and the numpy backend",
        "for source != None the storage holds the extracted scalar field (offline analysis of a FieldCollection frame is not defined)",
    ]

    def budget(self, tier):
        return {"examples": 1600 if tier == "quick" else 40000, "shards": 16}

    def strategy(self, tier):
        return specs(tier)

    # very long runs (frame counts beyond key widths, attribute and buffer sizes): a fixed sweep on a tiny grid
    def exhaustive_jobs(self, tier):
        return [{"domain": "long-runs", "nframes": n} for n in ([130, 1100, 8400] if tier == "quick" else [130, 1100, 8400, 17000, 70000])]

    def expand(self, job):
        n = job["nframes"]
        frames = [{"kind": "binary" if k % 3 else "constant", "seed": k % 7, "scale": 1.0, "offset": 0.0, "density": 0.4} for k in range(n)]
        yield {
            "mode": "direct",
            "grid": {"family": "cart", "origin": [0.0], "shape": [5], "spacing": [1.0], "periodic": [True]},
            "frames": frames,
            "times": [0.25 * k for k in range(n)],
            "time_kind": "increasing",
            "settings": {"threshold": 0.5, "minimal_radius": 0, "refine": False, "refine_args": None, "modes": 0},
            "source": None,
            "existing": 0,
            "with_file": True,
            "storage": "memory",
        }
        yield {
            "mode": "lengthscale",
            "grid": {"family": "cart", "origin": [0.0], "shape": [8], "spacing": [1.0], "periodic": [True]},
            "frames": frames[: min(n, 9000)],
            "times": [0.25 * k for k in range(min(n, 9000))],
            "time_kind": "increasing",
            "method": "structure_factor_mean",
            "source": None,
            "with_file": True,
            "verbose": False,
        }

    def check(self, spec, ctx: Ctx):
        getattr(self, "_" + spec["mode"])(spec, ctx)

    # ------------------------------------------------------------------------------------
    def _kwargs(self, s, grid):
        dxs = np.asarray(grid.discretization, float)
        mr = {"cell": float(dxs.max()), "big": 3.0 * float(dxs.max())}.get(s["minimal_radius"], s["minimal_radius"])
        kw = dict(threshold=s["threshold"], minimal_radius=mr, refine=s["refine"], refine_args=None if s["refine_args"] is None else dict(s["refine_args"]), modes=s["modes"])
        # the same settings as numpy scalars (as they come out of array computations) in one case of three
        if (int(1000 * float(dxs.max())) + int(s["modes"])) % 3 == 0:
            kw["_numpy_scalars"] = True
            if not isinstance(kw["threshold"], str):
                kw["threshold"] = np.float32(kw["threshold"]) if float(np.float32(kw["threshold"])) == kw["threshold"] else np.float64(kw["threshold"])
            kw["minimal_radius"] = np.float64(kw["minimal_radius"]) if float(kw["minimal_radius"]) != int(kw["minimal_radius"]) else np.int64(int(kw["minimal_radius"]))
            kw["refine"] = np.bool_(kw["refine"])
            kw["modes"] = np.int64(kw["modes"])
            if kw["refine_args"] and "tolerance" in kw["refine_args"]:
                kw["refine_args"]["tolerance"] = np.float64(kw["refine_args"]["tolerance"])
        return kw

    @staticmethod
    def _plain(kw):
        """the settings for the offline analysis: plain Python values (the representation must not matter)"""
        out = {}
        for k, v in kw.items():
            if k.startswith("_"):
                continue
            if isinstance(v, np.generic):
                v = v.item()
            elif isinstance(v, dict):
                v = {kk: (vv.item() if isinstance(vv, np.generic) else vv) for kk, vv in v.items()}
            out[k] = v
        return out

    def _compare(self, ctx, tracker_data, offline, prefix_model, label):
        n_prev = len(prefix_model)
        got_t = [float(t) for t in tracker_data.times]
        exp_t = [float(t) for t, _ in prefix_model] + [float(t) for t in offline.times]
        if not ctx.require(len(tracker_data.emulsions) == len(tracker_data.times) == len(exp_t), f"{label}:frame-count", f"tracker has {len(tracker_data.times)} times / {len(tracker_data.emulsions)} emulsions, expected {len(exp_t)}"):
            return
        ctx.require(got_t == exp_t, f"{label}:times", f"tracker times {got_t} vs storage times {exp_t}")
        for i, (t, rec) in enumerate(prefix_model):
            ctx.require(em_records(tracker_data.emulsions[i]) == rec, f"{label}:existing-frames-changed", f"frame {i} that was already in the supplied time course changed")
        for i, e_off in enumerate(offline.emulsions):
            e_trk = tracker_data.emulsions[n_prev + i]
            if em_records(e_trk) != em_records(e_off):
                ctx.fail(f"{label}:frame-differs", f"frame {i} (t={exp_t[n_prev + i]}): tracker {[str(d) for d in e_trk][:3]} vs offline {[str(d) for d in e_off][:3]}")
                break

    def _direct(self, spec, ctx):
        from pde import FieldCollection, MemoryStorage, ScalarField

        from droplets import DropletTracker, Emulsion, EmulsionTimeCourse, SphericalDroplet

        grid = build_grid(spec["grid"])
        s = spec["settings"]
        kw = self._kwargs(s, grid)
        fields = [ScalarField(grid, make_field(grid, f)) for f in spec["frames"]]
        times = spec["times"]
        src = spec["source"]
        ctx.cls("direct", spec["grid"]["family"], f"source:{src}", f"refine:{s['refine']}", f"modes:{s['modes']}", f"frames:{len(fields)}" if len(fields) <= 12 else "frames>" + str(max(t for t in (12, 100, 1000, 8192, 16384, 65536) if len(fields) > t)))
        existing = None
        prefix_model = []
        via_tc = spec.get("route") == "timecourse"
        if spec["existing"] or via_tc:
            existing = EmulsionTimeCourse()
            for k in range(spec["existing"]):
                e = Emulsion([SphericalDroplet(np.full(grid.dim, float(k)), 1.0 + k)])
                existing.append(e, -100.0 + k)
            prefix_model = [(t, em_records(e)) for t, e in zip(existing.times, existing.emulsions)]
        file_storage = spec.get("storage") == "file" and bool(fields)
        tmp = _scratch() if (spec["with_file"] or file_storage) else None
        try:
            path = os.path.join(tmp, "tracker.hdf5") if spec["with_file"] else None
            if src == "callable":
                source = lambda fc: fc[1]  # noqa: E731
            else:
                source = src
            if via_tc:
                ctx.cls("route:timecourse.tracker")
                tr = existing.tracker(1, filename=path) if path else existing.tracker(1)
                kw = {"threshold": 0.5, "minimal_radius": 0, "refine": False, "refine_args": None, "modes": 0}
                if not ctx.require(isinstance(tr, DropletTracker), "direct:timecourse-tracker-type", f"EmulsionTimeCourse.tracker returned {type(tr).__name__}"):
                    return
            else:
                tr = DropletTracker(1, filename=path, emulsion_timecourse=existing, source=source, threshold=kw["threshold"], minimal_radius=kw["minimal_radius"], refine=kw["refine"], refine_args=kw["refine_args"], perturbation_modes=kw["modes"])
            if file_storage:
                # the fields are stored on disk and analysed from there afterwards
                from pde import FileStorage

                ctx.cls("storage:file")
                storage = FileStorage(os.path.join(tmp, "fields.hdf5"), write_mode="truncate")
            else:
                storage = MemoryStorage()

            def wrap(f, k):
                if src is None:
                    return f, f
                other = ScalarField(grid, np.full(grid.shape, 0.123 * k))
                if src == 0:
                    return FieldCollection([f, other]), f
                return FieldCollection([other, f]), f

            if fields:
                w0, s0 = wrap(fields[0], 0)
                tr.initialize(w0)
                storage.start_writing(s0)
            for k, (f, t) in enumerate(zip(fields, times)):
                w, sfield = wrap(f, k)
                snap = f.data.tobytes()
                tr.handle(w, t)
                storage.append(sfield, t)
                ctx.require(f.data.tobytes() == snap, "direct:field-modified", "handle modified the field")
            tr.finalize()
            if fields:
                storage.end_writing()
            off_kw = self._plain(kw)
            if file_storage:
                storage.close()
                storage = FileStorage(os.path.join(tmp, "fields.hdf5"), write_mode="read_only")
            offline = EmulsionTimeCourse.from_storage(storage, progress=False, **off_kw) if fields else EmulsionTimeCourse()
            if file_storage:
                storage.close()
            self._compare(ctx, tr.data, offline, prefix_model, "direct")
            if existing is not None:
                ctx.require(tr.data is existing, "direct:supplied-timecourse-not-used", "the supplied emulsion_timecourse is not the object holding the data")
            if path:
                ctx.require(os.path.exists(path), "direct:file-missing", "finalize did not write the file")
                if os.path.exists(path):
                    back = EmulsionTimeCourse.from_file(path, progress=False)
                    same = [float(t) for t in back.times] == [float(t) for t in tr.data.times] and [em_records(e) for e in back.emulsions] == [em_records(e) for e in tr.data.emulsions]
                    ctx.require(same, "direct:file-differs", "the file written by finalize does not read back equal to the recorded data")
            ndrops = [len(e) for e in offline.emulsions]
            gap = any(ndrops[i] == 0 and any(ndrops[:i]) and any(ndrops[i + 1 :]) for i in range(len(ndrops)))
            nondefault = s["threshold"] != 0.5 or s["minimal_radius"] != 0 or s["refine"] or s["modes"] or src is not None
            ctx.nontrivial = len(fields) >= 2 and (nondefault or gap)
            if gap:
                ctx.cls("droplet-free-frame-between")
        finally:
            if tmp:
                shutil.rmtree(tmp, ignore_errors=True)

    def _lengthscale(self, spec, ctx):
        from pde import FieldCollection, ScalarField

        from droplets import LengthScaleTracker
        from droplets.image_analysis import get_length_scale

        grid = build_grid(spec["grid"])
        fields = [ScalarField(grid, make_field(grid, f)) for f in spec["frames"]]
        times = spec["times"]
        method = spec["method"]
        src = spec["source"]
        ctx.cls("lengthscale", spec["grid"]["family"], method, f"frames:{len(fields)}" if len(fields) <= 12 else "frames>" + str(max(t for t in (12, 100, 1000, 8192) if len(fields) > t)))
        tmp = _scratch() if spec["with_file"] else None
        try:
            path = os.path.join(tmp, "ls.json") if tmp else None
            tr = LengthScaleTracker(1, filename=path, method=method, source=src, verbose=spec["verbose"])
            exp = []
            if fields:
                tr.initialize(fields[0] if src is None else FieldCollection([fields[0], fields[0]]))
            for f, t in zip(fields, times):
                try:
                    v = get_length_scale(f, method=method)
                except Exception:  # noqa: BLE001 - the tracker must record NaN in this case
                    v = math.nan
                exp.append(v)
                arg = f if src is None else FieldCollection([ScalarField(grid, 7.0), f])
                try:
                    tr.handle(arg, t)
                except Exception as exc:  # noqa: BLE001
                    ctx.fail(f"lengthscale:handle-raises:{type(exc).__name__}", f"handle raised {type(exc).__name__}: {exc}")
                    return
            tr.finalize()
            ctx.require([float(t) for t in tr.times] == [float(t) for t in times], "lengthscale:times", f"{tr.times} vs {times}")
            if ctx.require(len(tr.length_scales) == len(exp), "lengthscale:count", f"{len(tr.length_scales)} values for {len(exp)} frames"):
                for i, (a, b) in enumerate(zip(tr.length_scales, exp)):
                    same = (isinstance(a, float) or isinstance(a, np.floating)) and ((math.isnan(a) and math.isnan(b)) or float(a) == float(b))
                    if not same:
                        ctx.fail(f"lengthscale:value:{method}", f"frame {i}: tracker recorded {a!r}, the analysis gives {b!r}")
                        break
            nan_frames = sum(1 for v in exp if isinstance(v, float) and math.isnan(v))
            if nan_frames:
                ctx.cls("analysis-fails-on-some-frame")
            ctx.nontrivial = len(fields) >= 2 and (method != "structure_factor_mean" or nan_frames > 0 or src is not None)
            if path:
                if ctx.require(os.path.exists(path), "lengthscale:file-missing", "finalize did not write the JSON file"):
                    d = json.loads(open(path).read())
                    ok = [float(t) for t in d["times"]] == [float(t) for t in times] and len(d["length_scales"]) == len(exp) and all((math.isnan(x) and math.isnan(y)) or x == float(y) for x, y in zip(d["length_scales"], exp))
                    ctx.require(ok, "lengthscale:file-differs", "JSON file differs from the recorded lists")
        finally:
            if tmp:
                shutil.rmtree(tmp, ignore_errors=True)

    def _solver(self, spec, ctx):
        from pde import AllenCahnPDE, CahnHilliardPDE, DiffusionPDE, MemoryStorage, ScalarField

        from droplets import DiffuseDroplet, DropletTracker, Emulsion, EmulsionTimeCourse

        grid = build_grid(spec["grid"])
        n = spec["grid"]["shape"][0]
        rng = np.random.default_rng(spec["seed"])
        em = Emulsion([DiffuseDroplet(rng.uniform(0, n, 2), rng.uniform(1.5, n / 4), 1.0) for _ in range(int(rng.integers(1, 4)))])
        state = em.get_phasefield(grid)
        state.data += 0.02 * rng.standard_normal(state.data.shape)
        if spec["pde"] != "diffusion":
            state.data[...] = 2 * state.data - 1 if spec["pde"] == "cahn-hilliard" else state.data
        pde = {"diffusion": DiffusionPDE(0.2), "allen-cahn": AllenCahnPDE(), "cahn-hilliard": CahnHilliardPDE()}[spec["pde"]]
        s = spec["settings"]
        kw = self._kwargs(s, grid)
        if spec["pde"] == "cahn-hilliard" and kw["threshold"] in (0.5, 0.3):
            kw["threshold"] = 0.0
        tmp = _scratch() if spec["with_file"] else None
        ctx.cls("solver", spec["pde"], f"refine:{s['refine']}", f"modes:{s['modes']}")
        try:
            path = os.path.join(tmp, "run.hdf5") if tmp else None
            tr = DropletTracker(spec["interrupts"], filename=path, threshold=kw["threshold"], minimal_radius=kw["minimal_radius"], refine=kw["refine"], refine_args=kw["refine_args"], perturbation_modes=kw["modes"])
            storage = MemoryStorage()
            pde.solve(state, t_range=spec["t_range"], dt=spec["dt"], tracker=[tr, storage.tracker(spec["interrupts"])], backend="numpy", solver="euler")
            offline = EmulsionTimeCourse.from_storage(storage, progress=False, **self._plain(kw))
            self._compare(ctx, tr.data, offline, [], "solver")
            ctx.nontrivial = len(offline.times) >= 2
            if path and os.path.exists(path):
                back = EmulsionTimeCourse.from_file(path, progress=False)
                same = [float(t) for t in back.times] == [float(t) for t in tr.data.times] and [em_records(e) for e in back.emulsions] == [em_records(e) for e in tr.data.emulsions]
                ctx.require(same, "solver:file-differs", "the file written at the end of the run does not read back equal")
            elif path:
                ctx.fail("solver:file-missing", "no file written at the end of the run")
        finally:
            if tmp:
                shutil.rmtree(tmp, ignore_errors=True)


PROP = C14()
