"""C17 - length scales are physical lengths: they scale with the grid, not the field."""

from __future__ import annotations

import math

import numpy as np
from hypothesis import strategies as st

from vf import gen
from vf import oracles as O
from vf.engine import Ctx, Property

finite = gen.finite


@st.composite
def specs(draw, tier):
    method = draw(st.sampled_from(["mean", "droplets", "peak-wave", "peak-wave", "peak-general"]))
    dim = draw(st.sampled_from([1, 1, 2, 2, 3]))
    if method == "peak-wave":
        cap = {1: 96, 2: 32, 3: 12}[dim] if tier == "quick" else {1: 192, 2: 48, 3: 16}[dim]
        shape = [draw(st.integers(8, cap)) for _ in range(dim)]
    elif method == "droplets":
        cap = {1: 64, 2: 32, 3: 14}[dim]
        shape = [draw(st.integers(10, cap)) for _ in range(dim)]
    else:
        cap = {1: 48, 2: 16, 3: 8}[dim]
        shape = [draw(st.integers(3, cap)) for _ in range(dim)]
    base = draw(st.one_of(st.just(1.0), *([st.floats(-2.5, 2.5, **finite).map(lambda e: gen.r6(10**e))] * 5), st.floats(-6, 8, **finite).map(lambda e: gen.r6(10**e))))  # (the last: tiny / huge length units)
    aniso = draw(st.booleans()) and dim > 1
    spacing = [gen.r6(base * (draw(st.floats(0.5, 2, **finite)) if aniso else 1.0)) for _ in range(dim)]
    spec = {
        "method": method,
        "shape": shape,
        "spacing": spacing,
        "seed": draw(st.integers(0, 2**31)),
        "stretch": gen.r6(10 ** draw(st.floats(-2, 2, **finite))),
        "scale": draw(st.sampled_from([2.0, 0.5, 1e3, 1e-3, 3.7, -1.0, -2.5])),
        "shift": [draw(st.integers(0, n - 1)) for n in shape],
        "amp": gen.r6(10 ** draw(st.floats(-2, 2, **finite))),
        "offset": gen.r6(draw(st.floats(-2, 2, **finite))),
    }
    if method == "peak-wave":
        # integer wave vector with at least four cells per period along every axis; not all zero
        modes = [draw(st.integers(0, n // 4)) for n in shape]
        if not any(modes):
            modes[0] = 1
        spec["modes"] = modes
        spec["phase"] = gen.r6(draw(st.floats(0, 6.28, **finite)))
    # lower corner of the box in units of its edge lengths (the grid need not start at the origin), alternative spellings
    # of the method names, and the additional output
    spec["origin_f"] = [draw(st.sampled_from([0.0, 0.0, -0.5, 1.0, -3.25, 7.5])) for _ in range(dim)]
    spec["alias"] = draw(st.booleans())
    spec["full_output"] = draw(st.booleans())
    if method == "droplets":
        # droplet counting does not need a fully periodic box: translations are then taken along the periodic axes only
        spec["periodic"] = [True] * dim if draw(st.integers(0, 2)) else [draw(st.booleans()) for _ in range(dim)]
        spec["n"] = draw(st.integers(1, 6))
        spec["threshold"] = draw(st.sampled_from(["auto", "auto", "extrema", "mean", "otsu"]))
        spec["shapes"] = draw(st.sampled_from(["round", "bars", "band"])) if dim >= 2 else "round"
        if dim >= 2 and draw(st.integers(0, 5)) == 1:
            # a slab: a single cell along one axis (the box still has its full dimension); objects are drawn cell-wise
            shape[draw(st.integers(0, dim - 1))] = 1
            spec["shape"] = shape
            spec["shift"] = [min(k, n - 1) for k, n in zip(spec["shift"], shape)]
            spec["shapes"] = "bars"
        if spec["shapes"] == "band":  # the crest of an oblique plane wave: thin bands that wind around the periodic axes
            spec["band"] = [draw(st.integers(0, 3)) for _ in range(dim)]
            if not any(spec["band"]):
                spec["band"][0] = 1
            spec["band_width"] = draw(st.sampled_from([0.0, 0.3, 0.6]))
    if method == "peak-general":
        spec["kind"] = draw(st.sampled_from(["noise", "blob", "two-waves"]))
    return spec


def make_grid(shape, spacing, origin_f=None, periodic=True):
    from pde import CartesianGrid

    of = origin_f or [0.0] * len(shape)
    return CartesianGrid([(f * n * d, f * n * d + n * d) for n, d, f in zip(shape, spacing, of)], list(shape), periodic=periodic)


class C17(Property):
    id = "C17"
    rule = (
        "Hypothesis draws a fully periodic Cartesian grid (dim 1-3, spacing exactly 1.0 or 10^U(-2.5,2.5), optionally anisotropic), a "
        "field and a transformation (stretch 10^U(-2,2), scaling of either sign, integer shift). Moment method: noise/blob/plane-wave "
        "fields, three exact covariance relations. Droplet counting: rendered non-overlapping emulsions, and binary images of elongated bars whose equal-volume spheres overlap, with automatic threshold rules, "
        "the three relations and l = (V_box/n)^(1/d). Peak method: plane waves with integer wave vectors resolved by >= 4 cells per "
        "period, random phase/amplitude/offset, default smoothing -> finite and within half a Fourier bin of |k0|; general fields with "
        "an explicitly supplied covariant smoothing width -> covariance within one Fourier bin. Non-trivial = spacing outside "
        "[0.3, 0.5] and != 1/32 (the spacings used by the test-suite) and a non-identity transformation; distinct = distinct spec hash."
    )
    assumptions = [
        "droplet counting: n = 0 is not judged; translation invariance is judged when no located droplet was removed by the locator's overlap filter, and for binary images of bars also when the filter removed something provided no decision of the greedy filter sits on a knife edge (tied volumes, sphere distance equal to the sum of the radii within 1e-9, winding components)",
        "peak method, general fields: judged only when the largest and second largest structure-factor values differ by > 1e-6 relative",
        "known finding F10 (default smoothing width not covariant) is recognised by re-running the failing call with smoothing = 1e-4 x 2 pi / L_max: if the property then holds, the case is attributed to F10",
    ]

    def budget(self, tier):
        return {"examples": 12000 if tier == "quick" else 100000, "shards": 16}

    def strategy(self, tier):
        return specs(tier)

    # droplet counting on one connected band that winds through the periodic boundaries, for every translation along either axis
    # (whether a defect of the periodic merge shows depends on where the box cuts the band): a fixed sweep
    def exhaustive_jobs(self, tier):
        return [{"domain": "winding-bands", "band": b, "width": w} for b in ([1, 3], [3, 1], [1, 2], [3, 2]) for w in (0.0, 0.5, 0.8)]

    def expand(self, job):
        n = 48
        for ax in (0, 1):
            for k in range(1, n, 2):
                shift = [0, 0]
                shift[ax] = k
                yield {"method": "droplets", "shape": [n, n], "spacing": [1.0, 0.75], "seed": 3, "stretch": 2.0, "scale": 2.0, "shift": shift, "amp": 1.0, "offset": 0.0,
                       "origin_f": [0.0, -0.5], "alias": False, "full_output": False, "periodic": [True, True], "n": 1, "threshold": "auto", "shapes": "band", "band": job["band"], "band_width": job["width"]}

    def check(self, spec, ctx: Ctx):
        from pde import ScalarField

        from droplets.image_analysis import get_length_scale, get_structure_factor, locate_droplets

        shape, spacing = spec["shape"], spec["spacing"]
        dim = len(shape)
        of = spec.get("origin_f") or [0.0] * dim
        per = [bool(p) for p in spec.get("periodic", [True] * dim)]
        grid = make_grid(shape, spacing, of, per)
        s = spec["stretch"]
        grid_s = make_grid(shape, [d * s for d in spacing], of, per)
        shift = [k if p else 0 for k, p in zip(spec["shift"], per)]
        alias, full = bool(spec.get("alias")), bool(spec.get("full_output"))
        if any(of):
            ctx.cls("origin!=0")
        if min(shape) == 1 and dim >= 2:
            ctx.cls("single-cell-axis")
        if not all(per):
            ctx.cls("mixed-periodicity")
        rng = np.random.default_rng(spec["seed"])
        method = spec["method"]
        L = np.array(shape) * np.array(spacing)
        dk = 2 * math.pi / float(L.max())
        ctx.cls(method, f"dim{dim}", "spacing=1" if spacing[0] == 1.0 else ("spacing<0.3" if spacing[0] < 0.3 else ("spacing>0.5" if spacing[0] > 0.5 else "spacing-like-tests")))
        used_by_tests = all(0.3 <= d <= 0.5 or d == 1 / 32 for d in spacing)
        if spacing[0] > 1e3 or spacing[0] < 1e-3:
            ctx.cls("extreme-length-unit")
        nontriv_t = any(shift) or s != 1.0
        ctx.nontrivial = (not used_by_tests) and nontriv_t
        idx = np.meshgrid(*[np.arange(n) for n in shape], indexing="ij")
        # an earlier analysis on a sibling grid (same shape, other aspect ratio / spacing) must leave no trace
        try:
            sib = make_grid(shape, [spacing[0] * 3.0] + [x * 0.5 for x in spacing[1:]])
            sib_field = ScalarField(sib, np.cos(2 * np.pi * idx[0] / shape[0]) + 0.3)
            get_structure_factor(sib_field)
            get_length_scale(sib_field, "structure_factor_maximum")
        except Exception:  # noqa: BLE001 - not judged
            pass

        def rel_ok(a, b, rtol):
            return math.isfinite(a) and math.isfinite(b) and abs(a - b) <= rtol * max(abs(a), abs(b))

        if method == "mean":
            data = spec["amp"] * (rng.uniform(-1, 1, shape) + spec["offset"])
            if np.ptp(data) == 0:
                ctx.skip("constant")
                return
            l0 = get_length_scale(ScalarField(grid, data), "structure_factor_mean")
            if not ctx.require(isinstance(l0, (float, np.floating)) and math.isfinite(l0) and l0 > 0, "mean:not-finite", f"length scale {l0!r}"):
                return
            if alias:
                # the documented alternative spelling of the method is the same analysis
                la = get_length_scale(ScalarField(grid, data), "structure_factor_average")
                ctx.require(isinstance(la, (float, np.floating)) and la == l0, "mean:alias", f"'structure_factor_average' gives {la!r}, 'structure_factor_mean' {l0!r}")
            if full:
                # the additional output does not change the length scale and is the structure factor itself
                res = get_length_scale(ScalarField(grid, data), "structure_factor_mean", full_output=True)
                if ctx.require(isinstance(res, tuple) and len(res) == 2, "mean:full-output", f"full_output returns {type(res).__name__}"):
                    _, S_ref = get_structure_factor(ScalarField(grid, data))
                    ctx.require(res[0] == l0 and np.shape(res[1]) == np.shape(S_ref) and np.array_equal(res[1], S_ref), "mean:full-output", f"full_output gives l = {res[0]!r} (plain call {l0!r}) and a structure factor of shape {np.shape(res[1])}")
            l1 = get_length_scale(ScalarField(grid_s, data), "structure_factor_mean")
            ctx.require(rel_ok(l1, s * l0, 1e-9), "mean:stretch", f"l(stretch {s}) = {l1}, expected {s} x {l0} = {s * l0}")
            l2 = get_length_scale(ScalarField(grid, spec["scale"] * data), "structure_factor_mean")
            ctx.require(rel_ok(l2, l0, 1e-9), "mean:scale", f"l({spec['scale']} f) = {l2} != {l0}")
            l3 = get_length_scale(ScalarField(grid, np.roll(data, shift, tuple(range(dim)))), "structure_factor_mean")
            ctx.require(rel_ok(l3, l0, 1e-9), "mean:shift", f"l(roll f) = {l3} != {l0}")
            return

        if method == "droplets":
            from droplets import DiffuseDroplet, Emulsion

            org = np.array(of) * L
            geom = O.CartGeom(org, shape, spacing, per)
            drops = []
            rmax = float(L.min()) / 4
            for _ in range(spec["n"]):
                r = rng.uniform(1.5 * max(spacing), max(1.6 * max(spacing), rmax))
                p = org + rng.uniform(0, 1, dim) * L
                # droplets keep clear of the non-periodic walls, so that a translation along the periodic axes moves them rigidly
                clear = all(pa or (o + r + 2 * dx <= x <= o + l - r - 2 * dx) for pa, x, o, l, dx in zip(per, p, org, L, spacing))
                if clear and all(geom.dist(p, q) > r + rq + 3 * float(np.linalg.norm(spacing)) for q, rq in drops) and 2 * r + 3 * max(spacing) < L.min():
                    drops.append((p, r))
            cellwise = spec.get("shapes") in ("bars", "band")  # images drawn cell by cell do not need room for a round droplet
            if not drops and not cellwise:
                ctx.skip("no-room")
                return
            if drops:
                em = Emulsion([DiffuseDroplet(p, r, 0.8 * min(spacing)) for p, r in drops])
                data = spec["amp"] * (em.get_phasefield(grid).data + spec["offset"])
            bars = spec.get("shapes") == "bars"
            if bars:
                # elongated, non-round clusters: their equal-volume spheres may overlap although the clusters do not touch, so
                # the locator's overlap filter (which must use the periodic metric) decides the count
                mask = np.zeros(shape, bool)

                def rng_cells(a, e, n, periodic_axis):
                    c = np.arange(a, a + e)
                    return c % n if periodic_axis else c[c < n]

                for _ in range(1 + spec["n"] // 2):
                    ext = [int(rng.integers(1, max(2, n // 2))) for n in shape]
                    thin = int(rng.integers(0, dim))
                    ext[thin] = 1 + int(rng.integers(0, 2))
                    lo = [int(rng.integers(0, n)) for n in shape]
                    mask[np.ix_(*[rng_cells(a, e, n, pa) for a, e, n, pa in zip(lo, ext, shape, per)])] = True
                    if rng.random() < 0.7:  # a parallel, shorter partner one empty cell away: distinct clusters, overlapping spheres
                        lo2, ext2 = list(lo), list(ext)
                        lo2[thin] = lo[thin] + ext[thin] + 1
                        ext2[thin] = 1
                        long_ax = int(np.argmax(ext))
                        ext2[long_ax] = max(1, ext[long_ax] - 1 - int(rng.integers(0, 3)))
                        mask[np.ix_(*[rng_cells(a, e, n, pa) for a, e, n, pa in zip(lo2, ext2, shape, per)])] = True
                if min(shape) >= 8 and rng.random() < 0.4:
                    # two equal cubes that touch in a corner only: two objects under face connectivity, their equal-volume spheres
                    # do not overlap - wherever the box boundary cuts the picture
                    k = int(rng.integers(2, max(3, min(shape) // 4)))
                    lo = [int(rng.integers(0, n)) if pa else int(rng.integers(0, n - 2 * k + 1)) for n, pa in zip(shape, per)]
                    for off in (0, k):
                        mask[np.ix_(*[rng_cells(a + off, k, n, pa) for a, n, pa in zip(lo, shape, per)])] = True
                    ctx.cls("corner-contact")
                data = spec["amp"] * (mask.astype(float) + spec["offset"])
                ctx.cls("bars")
            band = spec.get("shapes") == "band"
            if band:
                # one or several thin bands crossing the periodic boundaries many times; each is one connected object whose pieces
                # in the image must be put together whatever the position of the box relative to the pattern
                arg = sum(2 * np.pi * m * i / n for m, i, n in zip(spec["band"], idx, shape))
                mask = np.cos(arg) > spec["band_width"]
                data = spec["amp"] * (mask.astype(float) + spec["offset"])
                ctx.cls("band")
                bars = True  # judged like the bar images (two-valued image, explicit component analysis)
                if len(O.components(mask, per)) != 1:
                    # several objects of exactly equal size whose equal-volume spheres overlap: every decision of the overlap filter
                    # is a tie, so the count is not determined by the statement (it changes with rounding) - only images that
                    # consist of one connected band are judged
                    ctx.skip("band-with-several-components")
                    return
            kw = {"threshold": spec["threshold"]}
            ctx.cls(f"thr:{spec['threshold']}")
            if drops and not cellwise and spec["seed"] % 4 == 0:
                # every documented option of the droplet search is handed through: refinement with a minimal radius that lies between
                # the cluster radius and the fitted radius of the smallest droplet (so that the two filters disagree about it)
                ru = sorted(float(d.radius) for d in locate_droplets(ScalarField(grid, data), **kw))
                rf = sorted(float(d.radius) for d in locate_droplets(ScalarField(grid, data), refine=True, **kw))
                if ru and len(ru) == len(rf) and abs(ru[0] - rf[0]) > 1e-6 * ru[0]:
                    kw.update(refine=True, minimal_radius=0.5 * (ru[0] + rf[0]))
                    ctx.cls("refine+minimal-radius")
            found = locate_droplets(ScalarField(grid, data), **kw)
            n = len(found)
            if n == 0:
                ctx.skip("no-droplet-found")
                return
            l0 = get_length_scale(ScalarField(grid, data), "droplet_detection", **kw)
            exp = (float(np.prod(L)) / n) ** (1 / dim)
            ctx.require(rel_ok(l0, exp, 1e-12), "droplets:definition", f"l = {l0}, expected (V/n)^(1/d) = {exp} with n = {n}")
            if kw.get("refine"):
                return  # a fit with fixed intensity levels and a fixed minimal radius is covariant under neither map: only the definition is judged
            l1 = get_length_scale(ScalarField(grid_s, data), "droplet_detection", **kw)
            ctx.require(rel_ok(l1, s * l0, 1e-12), "droplets:stretch", f"l(stretch {s}) = {l1}, expected {s * l0}")
            c = abs(spec["scale"])
            l2 = get_length_scale(ScalarField(grid, c * data), "droplet_detection", **kw)
            ctx.require(rel_ok(l2, l0, 1e-12), "droplets:scale", f"l({c} f) = {l2} != {l0}")
            # shift: judged when the locator's overlap filter did not remove anything
            t_mask = None
            if bars and mask.any() and not mask.all():
                t_mask = mask  # two-valued image with positive amplitude: every rule separates the two levels
            elif spec["threshold"] in ("auto", "extrema"):
                t_mask = data > (data.min() + data.max()) / 2
            judge_shift = t_mask is not None and len(O.components(t_mask, per)) == n
            if band:
                # positions of winding objects are not specified, so the overlap filter may treat several of them differently
                # after a translation: only images that consist of a single connected band are judged
                judge_shift = t_mask is not None and len(O.components(t_mask, per)) == 1
            if t_mask is not None and not judge_shift and bars and not band:
                # the overlap filter removed something: the count is still translation invariant unless a decision of the greedy
                # filter sits on a knife edge (tied volumes, a sphere distance equal to the sum of radii, a winding component)
                comps = O.components(t_mask, per)
                cv = float(np.prod(spacing))
                info = []
                clean = True
                for c in comps:
                    if any(c["wind"]):
                        clean = False
                        break
                    cells = np.array([np.array(i) + np.array(o) * np.array(shape) for i, o in c["cells"]], float)
                    V = len(cells) * cv
                    info.append((V, org + (cells.mean(axis=0) + 0.5) * np.array(spacing), O.sphere_radius_from_volume(V, dim)))
                if clean:
                    vols = sorted(v for v, _, _ in info)
                    if any(b - a <= 1e-9 * b for a, b in zip(vols, vols[1:])):
                        clean = False
                    for i in range(len(info)):
                        for j in range(i + 1, len(info)):
                            gap = geom.dist(info[i][1], info[j][1]) - info[i][2] - info[j][2]
                            if abs(gap) <= 1e-9 * float(L.max()):
                                clean = False
                judge_shift = clean
                if clean:
                    ctx.cls("shift-judged-with-overlap-filter")
            if judge_shift:
                l3 = get_length_scale(ScalarField(grid, np.roll(data, shift, tuple(range(dim)))), "droplet_detection", **kw)
                ctx.require(rel_ok(l3, l0, 1e-12), "droplets:shift", f"l(roll f by {shift}) = {l3} != {l0} (n = {n})")
            else:
                ctx.cls("shift-not-judged")
            return

        if method == "peak-wave":
            modes = spec["modes"]
            arg = sum(2 * np.pi * m * i / n for m, i, n in zip(modes, idx, shape))
            data = spec["amp"] * (np.cos(arg + spec["phase"]) + spec["offset"])
            k0 = 2 * math.pi * math.sqrt(sum((m / l) ** 2 for m, l in zip(modes, L)))
            field = ScalarField(grid, data)
            l0 = get_length_scale(field, "structure_factor_peak" if alias else "structure_factor_maximum")
            if full:
                res = get_length_scale(field, "structure_factor_maximum", full_output=True)
                good = isinstance(res, tuple) and len(res) == 2 and callable(res[1]) and (res[0] == l0 or (res[0] != res[0] and l0 != l0))
                ctx.require(good, "peak:full-output", f"full_output gives {res[0] if isinstance(res, tuple) else res!r}, the plain call {l0!r}")
            ok = math.isfinite(l0) and l0 > 0 and abs(2 * math.pi / l0 - k0) <= 0.5 * dk * (1 + 1e-9)
            if not ok:
                # discriminate the recorded finding F10: does a covariant smoothing width repair this very call?
                l_cov = get_length_scale(field, "structure_factor_maximum", smoothing=1e-4 * dk)
                ok_cov = math.isfinite(l_cov) and l_cov > 0 and abs(2 * math.pi / l_cov - k0) <= 0.5 * dk * (1 + 1e-9)
                tag = "+default-smoothing-not-covariant" if ok_cov else ""
                ctx.fail("peak:plane-wave" + tag, f"shape {shape} spacing {spacing} modes {modes}: l = {l0} (k = {2 * math.pi / l0 if l0 else None}), true k0 = {k0}, bin = {dk}; with smoothing=1e-4*bin: l = {l_cov}")
            return

        # peak-general with an explicit covariant smoothing width
        kind = spec["kind"]
        if kind == "noise":
            data = rng.uniform(-1, 1, shape)
        elif kind == "blob":
            c = np.array([rng.uniform(0, n) for n in shape])
            d = np.linalg.norm(np.stack(idx, -1) - c, axis=-1)
            data = np.tanh((0.25 * max(shape) - d) / 1.5) + 0.02 * rng.uniform(-1, 1, shape)
        else:
            m1 = [int(rng.integers(0, max(1, n // 4) + 1)) for n in shape]
            m2 = [int(rng.integers(0, max(1, n // 4) + 1)) for n in shape]
            data = np.cos(sum(2 * np.pi * m * i / n for m, i, n in zip(m1, idx, shape))) + 0.6 * np.cos(sum(2 * np.pi * m * i / n for m, i, n in zip(m2, idx, shape)) + 1.0)
        data = spec["amp"] * (data + spec["offset"])
        if np.ptp(data) == 0:
            ctx.skip("constant")
            return
        k, S = get_structure_factor(ScalarField(grid, data), smoothing=None)
        n_modes = int(np.prod(shape)) - 1
        if not ctx.require(np.shape(k) == (n_modes,) and np.shape(S) == (n_modes,), "structure-factor:shape", f"k {np.shape(k)} / S {np.shape(S)} for {n_modes} non-zero modes"):
            return
        # group by wave number: the radial profile; require a unique clear maximum
        order = np.argsort(-S)
        top = S[order[0]]
        others = S[np.abs(k - k[order[0]]) > 1e-9 * k.max()]
        if others.size and others.max() >= top * (1 - 1e-6):
            ctx.skip("ambiguous-peak")
            return
        sm = 1e-3 * dk
        l0 = get_length_scale(ScalarField(grid, data), "structure_factor_maximum", smoothing=sm)
        if not (math.isfinite(l0) and l0 > 0):
            # the statement promises a finite result for plane waves only; nothing to compare here
            ctx.skip("peak-general-not-finite")
            return
        k_0 = 2 * math.pi / l0
        l1 = get_length_scale(ScalarField(grid_s, data), "structure_factor_maximum", smoothing=sm / s)
        ctx.require(math.isfinite(l1) and abs(2 * math.pi / l1 * s - k_0) <= dk, "peak-general:stretch", f"k(stretch {s}) x s = {2 * math.pi / l1 * s if l1 else None} vs {k_0} (bin {dk})")
        l2 = get_length_scale(ScalarField(grid, spec["scale"] * data), "structure_factor_maximum", smoothing=sm)
        ctx.require(math.isfinite(l2) and abs(2 * math.pi / l2 - k_0) <= dk, "peak-general:scale", f"k({spec['scale']} f) = {2 * math.pi / l2 if l2 else None} vs {k_0}")
        l3 = get_length_scale(ScalarField(grid, np.roll(data, shift, tuple(range(dim)))), "structure_factor_maximum", smoothing=sm)
        ctx.require(math.isfinite(l3) and abs(2 * math.pi / l3 - k_0) <= dk, "peak-general:shift", f"k(roll f) = {2 * math.pi / l3 if l3 else None} vs {k_0}")


PROP = C17()
