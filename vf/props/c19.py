"""C19 - the requested droplet model determines class and shape of every result."""

from __future__ import annotations

import itertools

import numpy as np

from vf.engine import Ctx, Property

GRIDS = (
    [("cart1", list(p)) for p in itertools.product([False, True], repeat=1)]
    + [("cart2", list(p)) for p in itertools.product([False, True], repeat=2)]
    + [("cart3", list(p)) for p in itertools.product([False, True], repeat=3)]
    + [("polar", []), ("spherical", []), ("cyl", [False]), ("cyl", [True])]
)
MODES = [0, 1, 2, 3, 4, 8]
WIDTHS = [None, 0.7]
THRESHOLDS = [0.5, "auto", "mean", "otsu"]
IMAGES = ["one", "two", "empty", "speck", "one+speck"]
# a single bright cell (an object smaller than the grid resolution), far away from the rendered droplets
SPECK = {"cart1": (13,), "cart2": (10, 12), "cart3": (6, 6, 7), "polar": (0,), "spherical": (0,), "cyl": (0, 14)}


def make_grid(fam, per):
    from pde import CartesianGrid, CylindricalSymGrid, PolarSymGrid, SphericalSymGrid

    if fam == "cart1":
        return CartesianGrid([(-1.0, 15.0)], [16], periodic=per)
    if fam == "cart2":
        return CartesianGrid([(-1.0, 11.0), (2.0, 12.5)], [12, 14], periodic=per)
    if fam == "cart3":
        return CartesianGrid([(0.0, 8.0), (-4.0, 4.0), (1.0, 10.0)], [8, 8, 9], periodic=per)
    if fam == "polar":
        return PolarSymGrid(12.0, 12)
    if fam == "spherical":
        return SphericalSymGrid(12.0, 12)
    return CylindricalSymGrid(8.0, (-2.0, 14.0), (8, 16), periodic_z=per[0])


def make_field(grid, fam, image):
    from pde import ScalarField

    from droplets import DiffuseDroplet, Emulsion

    if image == "empty":
        return ScalarField(grid, 0.0), 0
    if fam == "cart1":
        ds = [DiffuseDroplet([3.2], 2.4, 0.8), DiffuseDroplet([10.9], 1.9, 0.8)]
    elif fam == "cart2":
        ds = [DiffuseDroplet([2.7, 5.4], 2.2, 0.8), DiffuseDroplet([8.1, 9.2], 1.8, 0.8)]
    elif fam == "cart3":
        ds = [DiffuseDroplet([2.4, -1.6, 3.3], 1.9, 0.7), DiffuseDroplet([5.9, 1.8, 7.2], 1.6, 0.7)]
    elif fam == "polar":
        ds = [DiffuseDroplet([0.0, 0.0], 4.3, 0.9)]
    elif fam == "spherical":
        ds = [DiffuseDroplet([0.0, 0.0, 0.0], 4.3, 0.9)]
    else:
        ds = [DiffuseDroplet([0.0, 0.0, 2.3], 2.9, 0.8), DiffuseDroplet([0.0, 0.0, 9.6], 2.4, 0.8)]
    if image in ("speck", "one+speck"):
        if image == "speck":
            field = ScalarField(grid, 0.0)
        else:
            field = Emulsion(ds[:1]).get_phasefield(grid)
            if fam in ("polar", "spherical"):  # a second object can only be an outer shell there (not at the origin: ignored)
                field.data[9] = 1.0
                return field, None
        field.data[SPECK[fam]] = 1.0
        return field, None
    n = 1 if image == "one" else len(ds)
    return Emulsion(ds[:n]).get_phasefield(grid), n


class C19(Property):
    id = "C19"
    rule = (
        "Exhaustive enumeration of the configuration cube: grid family and periodicity (Cartesian 1-D x2, 2-D x4, 3-D x8 masks, polar, "
        "spherical, cylindrical x2) x modes {0,1,2,3,4,8} x interface_width {None, 0.7} x refine {off,on} x threshold rule "
        "{0.5, auto, mean, otsu} x image {one droplet, two droplets, empty, a single bright cell, one droplet + a single bright cell}. Oracle: expected class from the request (perturbed 2D / 3D / axisymmetric "
        "with exactly `modes` amplitudes, else Diffuse when a width is given or refinement is on, else Spherical; ValueError for modes "
        "in 1-D), exact type, dimension, carried width, one shared dtype and formable Emulsion.data. Non-trivial = configuration with "
        ">= 1 located droplet; distinct = distinct configuration."
    )
    assumptions = [
        "one fixed grid size and droplet placement per family (the property quantifies over configurations, not geometry)",
        "refined results are not compared with the candidates here (C04/C05 do that); only class, shape and layout are judged",
    ]

    def strategy(self, tier):
        return None

    def budget(self, tier):
        return {"examples": 0, "shards": 0}

    def exhaustive_jobs(self, tier):
        jobs = []
        for fam, per in GRIDS:
            for modes in MODES:
                for refine in (False, True):
                    jobs.append({"domain": "configuration-cube", "family": fam, "periodic": per, "modes": modes, "refine": refine})
        # interleave cheap and expensive jobs over the worker buckets
        jobs.sort(key=lambda j: (j["refine"], j["family"] == "cart3", j["modes"]), reverse=True)
        return jobs

    def expand(self, job):
        for width in WIDTHS:
            for thr in THRESHOLDS:
                for image in IMAGES:
                    yield {"family": job["family"], "periodic": job["periodic"], "modes": job["modes"], "refine": job["refine"], "interface_width": width, "threshold": thr, "image": image}

    def check(self, spec, ctx: Ctx):
        import droplets
        from droplets import Emulsion
        from droplets.droplets import PerturbedDroplet2D, PerturbedDroplet3D, PerturbedDroplet3DAxisSym
        from droplets.image_analysis import locate_droplets

        fam, modes, width, refine = spec["family"], spec["modes"], spec["interface_width"], spec["refine"]
        grid = make_grid(fam, spec["periodic"])
        field, n_true = make_field(grid, fam, spec["image"])
        ctx.cls(fam, f"modes{modes}", f"refine:{refine}", f"width:{width}", f"thr:{spec['threshold']}", f"image:{spec['image']}")
        kwargs = dict(threshold=spec["threshold"], modes=modes, interface_width=width, refine=refine)
        if modes > 0 and grid.dim == 1:
            try:
                locate_droplets(field, **kwargs)
            except ValueError:
                ctx.cls("documented-ValueError")
                ctx.nontrivial = True
                return
            ctx.fail("1d-modes-no-error", "modes > 0 on a 1-D grid did not raise ValueError")
            return
        res = locate_droplets(field, **kwargs)
        if not ctx.require(type(res) is Emulsion, "result-type", f"returned {type(res).__name__}"):
            return
        if modes > 0:
            if grid.dim == 2:
                exp = PerturbedDroplet2D
            elif fam == "cyl":
                exp = PerturbedDroplet3DAxisSym
            else:
                exp = PerturbedDroplet3D
        elif width is not None or refine:
            exp = droplets.DiffuseDroplet
        else:
            exp = droplets.SphericalDroplet
        if n_true is not None and spec["image"] != "empty" and spec["threshold"] in (0.5, "auto"):
            ctx.require(len(res) == n_true, "count", f"{n_true} droplets rendered, {len(res)} located")
        ctx.nontrivial = len(res) >= 1
        dtypes = set()
        for d in res:
            ctx.require(type(d) is exp, f"class:{fam}", f"expected {exp.__name__}, got {type(d).__name__}")
            ctx.require(d.dim == grid.dim, "dim", f"droplet dim {d.dim} on a grid of dim {grid.dim}")
            if modes > 0:
                ctx.require(hasattr(d, "amplitudes") and len(d.amplitudes) == modes and d.data["amplitudes"].shape == (modes,), "amplitude-count", f"{getattr(d, 'amplitudes', None)} for modes={modes}")
                if not refine:
                    ctx.require(bool(np.all(d.amplitudes == 0)), "unrefined-amplitudes-nonzero", f"{d.amplitudes}")
            else:
                ctx.require(not hasattr(d, "amplitudes"), "unexpected-amplitudes", "modes=0 but the droplet has amplitudes")
            if not refine and exp is not droplets.SphericalDroplet:
                got_w = getattr(d, "interface_width", "<no such attribute>")
                ctx.require(got_w == width, "width-not-carried", f"unrefined droplet has width {got_w}, supplied {width}")
            if refine:
                got_w = getattr(d, "interface_width", None)
                ctx.require(got_w is not None and got_w >= 0, "refined-width-unset", f"refined droplet has width {got_w}")
            dtypes.add(str(d.data.dtype))
        if len(res) >= 1:
            ctx.require(len(dtypes) == 1, "mixed-layouts", f"dtypes {dtypes}")
            try:
                data = res.data
                ok = isinstance(data, np.ndarray) and len(data) == len(res) and data.dtype == res[0].data.dtype and (res.dtype is None or data.dtype == res.dtype)
                ctx.require(ok, "tabular-data", f"Emulsion.data has dtype {getattr(data, 'dtype', None)} / len {len(data)}; droplets have {res[0].data.dtype}, emulsion.dtype {res.dtype}")
            except Exception as exc:  # noqa: BLE001
                ctx.fail("tabular-data-raises", f"Emulsion.data raised {type(exc).__name__}: {exc}")
        else:
            # empty results must still know a layout compatible with the grid dimension
            ctx.require(res.dim in (None, grid.dim), "empty-dim", f"empty result has dim {res.dim}")


PROP = C19()
