"""C19 - the requested droplet model determines class and shape of every result."""

from __future__ import annotations

import itertools

import numpy as np

from vf.engine import Ctx, Property

GRIDS = (
    [("cart1", list(p)) for p in itertools.product([False, True], repeat=1)]
    + [("cart2", list(p)) for p in itertools.product([False, True], repeat=2)]
    + [("cart3", list(p)) for p in itertools.product([False, True], repeat=3)]
    + [("polar", []), ("spherical", []), ("cyl", [False]), ("cyl", [True])]
    # strongly anisotropic cells: the equal-volume sphere of a few-cell object covers no cell centre at all
    + [("cart2a", [False, True]), ("cyla", [False])]
)
MODES = [0, 1, 2, 3, 4, 8]
WIDTHS = [None, 0.7]
THRESHOLDS = [0.5, "auto", "mean", "otsu"]
IMAGES = ["one", "two", "three", "empty", "speck", "one+speck"]
# a single bright cell (an object smaller than the grid resolution), far away from the rendered droplets
SPECK = {"cart1": (13,), "cart2": (10, 12), "cart3": (6, 6, 7), "polar": (0,), "spherical": (0,), "cyl": (0, 14), "cart2a": (slice(9, 11), 44), "cyla": (0, 120)}


def make_grid(fam, per):
    from pde import CartesianGrid, CylindricalSymGrid, PolarSymGrid, SphericalSymGrid

    if fam == "cart1m":  # room for many droplets
        return CartesianGrid([(0.0, 208.0)], [208], periodic=per)
    if fam == "cart2m":
        return CartesianGrid([(0.0, 48.0), (0.0, 40.0)], [48, 40], periodic=per)
    if fam == "cart1":
        return CartesianGrid([(-1.0, 15.0)], [16], periodic=per)
    if fam == "cart2":
        return CartesianGrid([(-1.0, 11.0), (2.0, 12.5)], [12, 14], periodic=per)
    if fam == "cart3":
        return CartesianGrid([(0.0, 8.0), (-4.0, 4.0), (1.0, 10.0)], [8, 8, 9], periodic=per)
    if fam == "cart2a":
        return CartesianGrid([(-1.0, 11.0), (2.0, 14.0)], [12, 48], periodic=per)  # cells 1 x 0.25
    if fam == "cyla":
        return CylindricalSymGrid(8.0, (-2.0, 14.0), (8, 128), periodic_z=per[0])  # cells 1 x 0.125
    if fam == "polar":
        return PolarSymGrid(12.0, 12)
    if fam == "spherical":
        return SphericalSymGrid(12.0, 12)
    return CylindricalSymGrid(8.0, (-2.0, 14.0), (8, 16), periodic_z=per[0])


def make_field(grid, fam, image):
    from pde import ScalarField

    from droplets import DiffuseDroplet, Emulsion

    if image == "empty":
        return ScalarField(grid, 0.0), 0
    if isinstance(image, str) and image.startswith("many:"):
        # n droplets on a regular lattice (pitch 8 cells), the last ones smaller than the first
        n = int(image.split(":")[1])
        if fam == "cart1m":
            ds = [DiffuseDroplet([4.0 + 8.0 * k], 2.4 - 0.6 * (k % 3) / 2, 0.7) for k in range(n)]
        else:
            ds = [DiffuseDroplet([4.0 + 8.0 * (k % 6), 4.0 + 8.0 * (k // 6)], 2.6 - 0.5 * (k % 3) / 2, 0.8) for k in range(n)]
        return Emulsion(ds).get_phasefield(grid), n
    if fam == "cart1":
        ds = [DiffuseDroplet([2.2], 1.6, 0.6), DiffuseDroplet([7.4], 1.4, 0.6), DiffuseDroplet([11.9], 1.2, 0.5)]
    elif fam == "cart2":
        ds = [DiffuseDroplet([2.7, 5.4], 2.2, 0.8), DiffuseDroplet([8.1, 9.2], 1.8, 0.8), DiffuseDroplet([8.6, 3.9], 1.5, 0.6)]
    elif fam == "cart2a":
        ds = [DiffuseDroplet([2.7, 5.4], 2.2, 0.8), DiffuseDroplet([8.1, 6.2], 1.8, 0.8), DiffuseDroplet([5.6, 10.4], 1.6, 0.6)]
    elif fam == "cyla":
        ds = [DiffuseDroplet([0.0, 0.0, 1.3], 2.2, 0.8), DiffuseDroplet([0.0, 0.0, 6.6], 1.9, 0.8), DiffuseDroplet([0.0, 0.0, 11.2], 1.1, 0.5)]
    elif fam == "cart3":
        ds = [DiffuseDroplet([2.4, -1.6, 3.3], 1.9, 0.7), DiffuseDroplet([5.9, 1.8, 7.2], 1.6, 0.7), DiffuseDroplet([6.4, -2.4, 2.4], 1.1, 0.5)]
    elif fam == "polar":
        ds = [DiffuseDroplet([0.0, 0.0], 4.3, 0.9)]
    elif fam == "spherical":
        ds = [DiffuseDroplet([0.0, 0.0, 0.0], 4.3, 0.9)]
    else:
        ds = [DiffuseDroplet([0.0, 0.0, 1.6], 2.2, 0.8), DiffuseDroplet([0.0, 0.0, 7.1], 1.9, 0.8), DiffuseDroplet([0.0, 0.0, 11.4], 1.2, 0.6)]
    if image in ("speck", "one+speck"):
        if image == "speck":
            field = ScalarField(grid, 0.0)
        else:
            field = Emulsion(ds[:1]).get_phasefield(grid)
            if fam in ("polar", "spherical"):  # a second object can only be an outer shell there (not at the origin: ignored)
                field.data[9] = 1.0
                return field, None
        field.data[SPECK[fam]] = 1.0
        return field, None
    if image == "small-first":
        # the same three places, the smallest droplet first in scan order (radii ascending along the first axis / z)
        order = sorted(range(len(ds)), key=lambda k: (ds[k].position[-1] if fam in ("cyl", "cyla") else ds[k].position[0]))
        radii = sorted(d.radius for d in ds)
        ds = [DiffuseDroplet(ds[k].position, r, 0.5) for k, r in zip(order, radii)]
        return Emulsion(ds).get_phasefield(grid), len(ds)
    n = {"one": 1, "two": min(2, len(ds)), "three": len(ds)}[image]
    return Emulsion(ds[:n]).get_phasefield(grid), n


class C19(Property):
    id = "C19"
    rule = (
        "Exhaustive enumeration of the configuration cube: grid family and periodicity (Cartesian 1-D x2, 2-D x4, 3-D x8 masks, polar, "
        "spherical, cylindrical x2) x modes {0,1,2,3,4,8} x interface_width {None, 0.7} x refine {off,on} x threshold rule "
        "{0.5, auto, mean, otsu} x image {one, two, three droplets, empty, a single bright cell / few-cell speck, one droplet + speck}; two further grids with strongly anisotropic cells (Cartesian 1 x 0.25, cylindrical 1 x 0.125). Oracle: expected class from the request (perturbed 2D / 3D / axisymmetric "
        "with exactly `modes` amplitudes, else Diffuse when a width is given or refinement is on, else Spherical; ValueError for modes "
        "in 1-D), exact type, dimension, carried width, one shared dtype and formable Emulsion.data. Non-trivial = configuration with "
        ">= 1 located droplet; distinct = distinct configuration."
    )
    assumptions = [
        "one fixed grid size and droplet placement per family (the property quantifies over configurations, not geometry)",
        "refined results are not compared with the candidates here (C04/C05 do that); only class, shape and layout are judged",
    ]

    def strategy(self, tier):
        return None

    def budget(self, tier):
        return {"examples": 0, "shards": 0}

    def exhaustive_jobs(self, tier):
        jobs = []
        for fam, per in GRIDS:
            for modes in MODES:
                for refine in (False, True):
                    jobs.append({"domain": "configuration-cube", "family": fam, "periodic": per, "modes": modes, "refine": refine})
        # interleave cheap and expensive jobs over the worker buckets
        jobs.sort(key=lambda j: (j["refine"], j["family"] == "cart3", j["modes"]), reverse=True)
        # refinement spread over worker processes, with more droplets than any per-worker batch
        for fam, per in (("cart1m", [True]), ("cart2m", [False, True])):
            for n in (9, 13, 21, 26):
                jobs.append({"domain": "parallel-refinement", "family": fam, "periodic": per, "n": n})
        # refinement that is stopped before it has converged (documented pass-through of solver options)
        for fam, per in (("cart1", [False]), ("cart2", [True, True]), ("polar", []), ("cyl", [False])):
            jobs.append({"domain": "evaluation-budget", "family": fam, "periodic": per})
        # a minimal radius that removes some candidates (the first one in scan order, or the last one) and keeps the others
        for fam, per in (("cart1", [True]), ("cart2", [False, True]), ("cart3", [True, False, True]), ("cyl", [False]), ("cyl", [True])):
            jobs.append({"domain": "minimal-radius", "family": fam, "periodic": per})
        return jobs

    def expand(self, job):
        if job["domain"] == "evaluation-budget":
            for image in ("one", "three", "one+speck"):
                for modes in ((0,) if job["family"] == "cart1" else (0, 2)):
                    for width in WIDTHS:
                        for nfev in (1, 2, 3, 5, 8):
                            yield {"family": job["family"], "periodic": job["periodic"], "modes": modes, "refine": True, "interface_width": width, "threshold": 0.5, "image": image, "max_nfev": nfev}
            return
        if job["domain"] == "minimal-radius":
            for image in ("three", "small-first"):
                for modes in ((0,) if job["family"] == "cart1" else (0, 2)):
                    for width in WIDTHS:
                        for refine in (False, True):
                            yield {"family": job["family"], "periodic": job["periodic"], "modes": modes, "refine": refine, "interface_width": width, "threshold": 0.5, "image": image, "minimal_radius": "between-smallest-and-next"}
            return
        if job["domain"] == "parallel-refinement":
            for modes in ((0,) if job["family"] == "cart1m" else (0, 2)):
                for width in WIDTHS:
                    for procs in (2, 3):
                        yield {"family": job["family"], "periodic": job["periodic"], "modes": modes, "refine": True, "interface_width": width, "threshold": 0.5, "image": f"many:{job['n']}", "num_processes": procs}
            return
        aniso = job["family"] in ("cart2a", "cyla")  # the two extra grids: reduced product (two threshold rules, four images)
        for width in WIDTHS:
            for thr in THRESHOLDS[:2] if aniso else THRESHOLDS:
                for image in ["one", "three", "speck", "one+speck"] if aniso else IMAGES:
                    yield {"family": job["family"], "periodic": job["periodic"], "modes": job["modes"], "refine": job["refine"], "interface_width": width, "threshold": thr, "image": image}

    def check(self, spec, ctx: Ctx):
        import droplets
        from droplets import Emulsion
        from droplets.droplets import PerturbedDroplet2D, PerturbedDroplet3D, PerturbedDroplet3DAxisSym
        from droplets.image_analysis import locate_droplets

        fam, modes, width, refine = spec["family"], spec["modes"], spec["interface_width"], spec["refine"]
        grid = make_grid(fam, spec["periodic"])
        field, n_true = make_field(grid, fam, spec["image"])
        ctx.cls(fam, f"modes{modes}", f"refine:{refine}", f"width:{width}", f"thr:{spec['threshold']}", f"image:{spec['image']}")
        kwargs = dict(threshold=spec["threshold"], modes=modes, interface_width=width, refine=refine)
        if spec.get("max_nfev"):
            kwargs["refine_args"] = {"least_squares_params": {"max_nfev": spec["max_nfev"]}}
            ctx.cls("evaluation-budget")
        if spec.get("minimal_radius"):
            # between the two smallest cluster radii of this image: the smallest candidate is removed, the others are kept
            radii = sorted(float(d.radius) for d in locate_droplets(field, threshold=spec["threshold"]))
            if len(radii) >= 2 and radii[1] > radii[0] * 1.02:
                kwargs["minimal_radius"] = 0.5 * (radii[0] + radii[1])
                ctx.cls("minimal-radius-removes-a-candidate")
                n_true = None  # the count is not judged here (refinement may move a radius across the bound; C18 has that clause)
        if spec.get("num_processes"):
            kwargs["num_processes"] = spec["num_processes"]
            ctx.cls(f"processes:{spec['num_processes']}")
        if (modes + len(spec["image"]) + len(fam)) % 3 == 0:
            # the same request with numpy scalars, as they come out of array computations (e.g. `for modes in np.arange(...)`)
            ctx.cls("numpy-scalar-arguments")
            kwargs["modes"] = np.int64(modes)
            kwargs["refine"] = np.bool_(refine)
            if width is not None:
                kwargs["interface_width"] = np.float64(width)
            if not isinstance(kwargs["threshold"], str):
                kwargs["threshold"] = np.float64(kwargs["threshold"])
        if modes > 0 and grid.dim == 1:
            try:
                locate_droplets(field, **kwargs)
            except ValueError:
                ctx.cls("documented-ValueError")
                ctx.nontrivial = True
                return
            ctx.fail("1d-modes-no-error", "modes > 0 on a 1-D grid did not raise ValueError")
            return
        res = locate_droplets(field, **kwargs)
        if not ctx.require(type(res) is Emulsion, "result-type", f"returned {type(res).__name__}"):
            return
        if modes > 0:
            if grid.dim == 2:
                exp = PerturbedDroplet2D
            elif fam in ("cyl", "cyla"):
                exp = PerturbedDroplet3DAxisSym
            else:
                exp = PerturbedDroplet3D
        elif width is not None or refine:
            exp = droplets.DiffuseDroplet
        else:
            exp = droplets.SphericalDroplet
        if n_true is not None and spec["image"] != "empty" and spec["threshold"] in (0.5, "auto"):
            ctx.require(len(res) == n_true, "count", f"{n_true} droplets rendered, {len(res)} located")
        ctx.nontrivial = len(res) >= 1
        dtypes = set()
        for d in res:
            ctx.require(type(d) is exp, f"class:{fam}", f"expected {exp.__name__}, got {type(d).__name__}")
            ctx.require(d.dim == grid.dim, "dim", f"droplet dim {d.dim} on a grid of dim {grid.dim}")
            if modes > 0:
                ctx.require(hasattr(d, "amplitudes") and len(d.amplitudes) == modes and d.data["amplitudes"].shape == (modes,), "amplitude-count", f"{getattr(d, 'amplitudes', None)} for modes={modes}")
                if not refine and hasattr(d, "amplitudes"):
                    ctx.require(bool(np.all(d.amplitudes == 0)), "unrefined-amplitudes-nonzero", f"{d.amplitudes}")
            else:
                ctx.require(not hasattr(d, "amplitudes"), "unexpected-amplitudes", "modes=0 but the droplet has amplitudes")
            if not refine and exp is not droplets.SphericalDroplet:
                got_w = getattr(d, "interface_width", "<no such attribute>")
                ctx.require(got_w == width, "width-not-carried", f"unrefined droplet has width {got_w}, supplied {width}")
            if refine:
                got_w = getattr(d, "interface_width", None)
                ctx.require(got_w is not None and got_w >= 0, "refined-width-unset", f"refined droplet has width {got_w}")
            dtypes.add(str(d.data.dtype))
        if len(res) >= 1:
            ctx.require(len(dtypes) == 1, "mixed-layouts", f"dtypes {dtypes}")
            try:
                data = res.data
                ok = isinstance(data, np.ndarray) and len(data) == len(res) and data.dtype == res[0].data.dtype and (res.dtype is None or data.dtype == res.dtype)
                ctx.require(ok, "tabular-data", f"Emulsion.data has dtype {getattr(data, 'dtype', None)} / len {len(data)}; droplets have {res[0].data.dtype}, emulsion.dtype {res.dtype}")
            except Exception as exc:  # noqa: BLE001
                ctx.fail("tabular-data-raises", f"Emulsion.data raised {type(exc).__name__}: {exc}")
        else:
            # empty results must still know a layout compatible with the grid dimension
            ctx.require(res.dim in (None, grid.dim), "empty-dim", f"empty result has dim {res.dim}")


PROP = C19()
