"""C12 - sphere volume / surface / radius conversions are mutually consistent."""

from __future__ import annotations

import numpy as np
from hypothesis import strategies as st

from vf import gen
from vf import oracles as O
from vf.engine import Ctx, Property

RT = 1e-13


_CASE_RT = [RT]  # tolerance of the case being checked (float32 arguments are judged at float32 resolution)


def close(a, b, rtol=None):
    rtol = _CASE_RT[0] if rtol is None else max(rtol, _CASE_RT[0])
    a = np.asarray(a, float)
    b = np.asarray(b, float)
    if a.shape != b.shape:
        a, b = np.broadcast_arrays(a, b)
    fin = np.isfinite(a) & np.isfinite(b)
    if not np.array_equal(a[~fin], b[~fin], equal_nan=True):
        return False  # a non-finite value only matches the identical non-finite value
    return bool(np.all(np.abs(a[fin] - b[fin]) <= rtol * np.maximum(np.abs(a[fin]), np.abs(b[fin]))))


_log = st.floats(-15, 15, allow_nan=False, width=64)
_value = st.one_of(
    _log.map(lambda e: 10.0**e),
    st.just(0.0),
    st.floats(0.1, 10.0),
    st.integers(0, 40).map(float),
)


@st.composite
def specs(draw):
    dim = draw(st.integers(1, 3))
    layout = draw(st.sampled_from(["scalar", "scalar", "0d", "1d", "2d"]))
    n = 1 if layout in ("scalar", "0d") else draw(st.integers(1, 6))
    vals = draw(st.lists(_value, min_size=n, max_size=n))
    pos = draw(st.lists(st.floats(-1e3, 1e3, allow_nan=False), min_size=dim, max_size=dim))
    cls = draw(st.sampled_from(["SphericalDroplet", "DiffuseDroplet"]))
    # a chain of volumes set one after the other on the same droplet (prior state matters)
    chain = [draw(_value)]
    for _ in range(draw(st.integers(0, 3))):
        kind = draw(st.sampled_from(["near", "near", "fresh", "tiny"]))
        if kind == "near":
            chain.append(chain[-1] * (1 + draw(st.sampled_from([1e-3, 1e-6, -1e-7, 1e-9, -1e-12, 3e-16]))))
        elif kind == "fresh":
            chain.append(draw(_value))
        else:
            chain.append(10.0 ** draw(st.floats(-30, -7, allow_nan=False)))
    spec = {"dim": dim, "layout": layout, "values": vals, "position": pos, "cls": cls, "volume_chain": chain, "start_radius": draw(_value)}
    spec["chain_origin"] = draw(st.integers(0, 9))
    spec["rejected_first"] = draw(st.sampled_from([None, None, 1.0, 0.5, 3.0]))
    # argument type: mostly float64; sometimes float32 arrays or (small) integers, which the conversions accept as well
    dt = draw(st.sampled_from(["float64"] * 6 + ["float32", "int"]))
    if dt == "float32" and layout != "scalar":
        spec["dtype"] = "float32"
        spec["values"] = [float(np.float32(min(max(v, 1e-12), 1e12))) if v > 0 else 0.0 for v in vals]
    elif dt == "int":
        spec["dtype"] = "int"
        spec["values"] = [float(draw(st.integers(0, 1000))) for _ in vals]
    return spec


class C12(Property):
    id = "C12"
    rule = (
        "Hypothesis draws dim in 1..3, an argument layout (python float, 0-d, 1-d, 2-d array; float64, sometimes float32 or small integers) and values "
        "10^U(-15,15), 0, small floats and small integers; every conversion variant (plain, dimension-"
        "specialised compiled, dimension-generic compiled from an njit wrapper, py-pde volume_from_radius, "
        "droplet properties/setters/from_volume, incl. chains of volume assignments with nearly equal and tiny values on a droplet in an arbitrary prior state) is compared with textbook formulas, round trips and r*S=d*V. "
        "Non-trivial = some value outside [0.1, 10] or an array argument; distinct = distinct spec hash."
    )
    assumptions = [
        "numpy/numba floating point; tolerances rtol 1e-13 (round trips, variant agreement), 1e-7 (finite-difference derivative); float32 arguments are judged with rtol 3e-6",
        "integer arguments are generated up to 1000 (numpy integer arithmetic wraps silently beyond 2^63, e.g. r**3 for r > 2e6; that is numpy's documented behaviour, not a property of these formulas)",
        "symbolic 'for all positive reals' is not reachable by search: 30 decades sampled numerically",
        "curvature of a radius-0 droplet (1/0) is not judged",
    ]

    def budget(self, tier):
        return {"examples": 3200 if tier == "quick" else 80000, "shards": 8 if tier == "quick" else 16}

    def strategy(self, tier):
        return specs()

    def warmup(self):
        import numba as nb

        from droplets.tools import spherical as S

        self.S = S
        self.comp = {}
        for d in (1, 2, 3):
            self.comp[d] = (
                S.make_radius_from_volume_compiled(d),
                S.make_volume_from_radius_compiled(d),
                S.make_surface_from_radius_compiled(d),
            )
        rfv = S.make_radius_from_volume_nd_compiled()
        vfr = S.make_volume_from_radius_nd_compiled()
        self.nd_py = (rfv, vfr)

        @nb.njit
        def rfv_w(v, dim):
            return rfv(v, dim)

        @nb.njit
        def vfr_w(r, dim):
            return vfr(r, dim)

        self.nd_jit = (rfv_w, vfr_w)
        a = np.array([1.0, 2.0])
        a2 = np.ones((2, 1))
        a0 = np.array(1.0)
        for d in (1, 2, 3):  # only to fill the JIT caches; anything that goes wrong here shows up in the judged cases
            for f in self.comp[d]:
                for arg in (1.0, a, a2, a0):
                    try:
                        f(arg)
                    except Exception:  # noqa: BLE001
                        pass
            for f in self.nd_jit:
                for arg in (1.0, a, a2, a0):
                    try:
                        f(arg, d)
                    except Exception:  # noqa: BLE001
                        pass

    def check(self, spec, ctx: Ctx):
        # The compiled variants are objects made by the library; when they refuse an argument the exception is raised inside
        # numba's dispatcher (no frame of the library in the traceback), so it is attributed to the library here.
        try:
            self._check(spec, ctx)
        except Exception as exc:  # noqa: BLE001
            import traceback

            frames = traceback.extract_tb(exc.__traceback__)
            if any("numba" in (fr.filename or "") for fr in frames) and not ctx.violations:
                ctx.fail(f"compiled-variant-raises:{type(exc).__name__}", f"a compiled conversion variant raised {type(exc).__name__}: {str(exc)[:200]} (argument dtype {spec.get('dtype', 'float64')}, layout {spec['layout']})")
            else:
                raise

    def _check(self, spec, ctx: Ctx):
        S = self.S
        dim = spec["dim"]
        layout = spec["layout"]
        vals = np.array(spec["values"], float)
        dt = spec.get("dtype", "float64")
        np_dt = {"float64": np.float64, "float32": np.float32, "int": np.int64}[dt]
        _CASE_RT[0] = 3e-6 if dt == "float32" else RT
        if layout == "scalar":
            x = int(vals[0]) if dt == "int" else float(vals[0])
        elif layout == "0d":
            x = np.array(vals[0], dtype=np_dt)
        elif layout == "1d":
            x = vals.astype(np_dt)
        else:
            x = vals.reshape(-1, 1).astype(np_dt)
        is_arr = isinstance(x, np.ndarray)
        ctx.cls(f"dim{dim}", f"layout:{layout}", f"dtype:{dt}")
        if is_arr or np.any(vals < 0.1) or np.any(vals > 10):
            ctx.nontrivial = True
        if np.any(vals == 0):
            ctx.cls("has-zero")
        xa = np.asarray(x, float)

        def shape_ok(name, out):
            if is_arr and x.ndim > 0:
                ctx.require(
                    isinstance(out, np.ndarray) and out.shape == x.shape,
                    f"shape:{name}",
                    f"{name}: array {x.shape} in, got {type(out).__name__} {getattr(out, 'shape', None)}",
                )
            else:
                ctx.require(np.ndim(out) == 0, f"shape:{name}", f"{name}: scalar in, got shape {np.shape(out)}")

        rfv_c, vfr_c, sfr_c = self.comp[dim]
        # --- x as radius ---------------------------------------------------------------
        V_ref = O.sphere_volume(xa, dim)
        S_ref = O.sphere_surface(xa, dim)
        vol_variants = {
            "pde.volume_from_radius": S.volume_from_radius(x, dim),
            "make_volume_from_radius_compiled": vfr_c(x),
            "volume_nd(py)": self.nd_py[1](x, dim),
        }
        if dt == "float64":  # with a run-time dimension numba can only unify the branches for float64 arguments
            vol_variants["volume_nd(njit)"] = self.nd_jit[1](x, dim)
        for name, out in vol_variants.items():
            shape_ok(name, out)
            ctx.require(close(out, V_ref), f"value:{name}:dim{dim}", f"{name}({x!r},{dim})={out!r} expected {V_ref!r}")
        surf_variants = {
            "surface_from_radius": S.surface_from_radius(x, dim),
            "make_surface_from_radius_compiled": sfr_c(x),
        }
        for name, out in surf_variants.items():
            shape_ok(name, out)
            ctx.require(close(out, S_ref), f"value:{name}:dim{dim}", f"{name}({x!r},{dim})={out!r} expected {S_ref!r}")
        # r * S = d * V and finite-difference derivative
        ctx.require(
            close(xa * np.asarray(surf_variants["surface_from_radius"], float), dim * np.asarray(vol_variants["pde.volume_from_radius"], float)),
            f"identity:rS=dV:dim{dim}",
            f"r*S != d*V at r={x!r}",
        )
        pos = xa > 0
        if np.any(pos):
            r = xa[pos]
            h = r * 1e-5
            dV = (np.asarray(S.volume_from_radius(r + h, dim)) - np.asarray(S.volume_from_radius(r - h, dim))) / (2 * h)
            Sv = np.broadcast_to(np.asarray(S.surface_from_radius(r, dim), float), r.shape)
            ctx.require(close(dV, Sv, 1e-7), f"derivative:dim{dim}", f"dV/dr={dV!r} vs S={Sv!r} at r={r!r}")
        # round trips r -> V -> r for every radius variant
        rad_variants = {
            "radius_from_volume": lambda v: S.radius_from_volume(v, dim),
            "make_radius_from_volume_compiled": rfv_c,
            "radius_nd(py)": lambda v: self.nd_py[0](v, dim),
        }
        if dt == "float64":
            rad_variants["radius_nd(njit)"] = lambda v: self.nd_jit[0](v, dim)
        Vx = S.volume_from_radius(x, dim)
        for name, f in rad_variants.items():
            back = f(Vx)
            shape_ok(name, back)
            ctx.require(close(back, xa), f"roundtrip:r-V-r:{name}:dim{dim}", f"r={x!r} -> V={Vx!r} -> {back!r}")
        if dim >= 2:
            back = S.radius_from_surface(S.surface_from_radius(x, dim), dim)
            shape_ok("radius_from_surface", back)
            ctx.require(close(back, xa), f"roundtrip:r-S-r:dim{dim}", f"r={x!r} -> S -> {back!r}")
        else:
            try:
                S.radius_from_surface(x, 1)
                ctx.fail("radius_from_surface:1d-no-error", "radius_from_surface(.,1) returned")
            except RuntimeError:
                pass
        # --- x as volume / surface -----------------------------------------------------
        R_ref = O.sphere_radius_from_volume(xa, dim)
        for name, f in rad_variants.items():
            out = f(x)
            ctx.require(close(out, R_ref), f"value:{name}:dim{dim}", f"{name}({x!r},{dim})={out!r} expected {R_ref!r}")
            v2 = S.volume_from_radius(out, dim)
            ctx.require(close(v2, xa), f"roundtrip:V-r-V:{name}:dim{dim}", f"V={x!r} -> r={out!r} -> {v2!r}")
        if dim >= 2:
            out = S.radius_from_surface(x, dim)
            ctx.require(close(out, O.sphere_radius_from_surface(xa, dim)), f"value:radius_from_surface:dim{dim}", f"{x!r} -> {out!r}")
            ctx.require(close(S.surface_from_radius(out, dim), xa), f"roundtrip:S-r-S:dim{dim}", f"S={x!r} -> r={out!r}")
        # --- droplet properties -------------------------------------------------------
        import droplets

        cls = getattr(droplets, spec["cls"])
        p = np.array(spec["position"], float)
        r0 = float(vals[0])
        d = cls(*gen.as_given(p, r0, spec["values"]))
        ctx.require(d.dim == dim, "droplet:dim", f"dim {d.dim} != {dim}")
        ctx.require(close(d.volume, O.sphere_volume(r0, dim)), f"droplet:volume:dim{dim}", f"r={r0} volume={d.volume}")
        ctx.require(close(d.surface_area, O.sphere_surface(r0, dim)), f"droplet:surface:dim{dim}", f"r={r0} surface={d.surface_area}")
        if r0 > 0:
            ctx.require(close(d.interface_curvature, 1.0 / r0), "droplet:curvature", f"r={r0} curvature={d.interface_curvature}")
        bb = d.bbox
        ctx.require(
            np.array_equal(np.asarray(bb.pos), p - r0) and np.allclose(np.asarray(bb.pos) + np.asarray(bb.size), p + r0, rtol=1e-13, atol=1e-13 * (abs(r0) + np.abs(p).max())),
            "droplet:bbox",
            f"bbox {bb} for p={p} r={r0}",
        )
        # volume setter and from_volume (value interpreted as a volume)
        d2 = cls(p, 1.0)
        d2.volume = r0
        ctx.require(close(d2.volume, r0), f"droplet:volume-setter:dim{dim}", f"set {r0}, read {d2.volume}")
        ctx.require(close(d2.radius, O.sphere_radius_from_volume(r0, dim)), f"droplet:volume-setter-radius:dim{dim}", f"set V={r0}, radius {d2.radius}")
        ctx.require(np.array_equal(d2.position, p), "droplet:volume-setter-moves", "position changed by volume setter")
        # chain of volume assignments starting from an arbitrary prior state
        d4 = cls(p, spec.get("start_radius", 1.0))
        # the droplet may have travelled before it is edited: through a pickle (as between processes), a shallow or deep copy
        import copy
        import pickle

        how = ["fresh", "pickle", "copy", "deepcopy", "copy-method"][spec.get("chain_origin", 0) % 5]
        if how == "pickle":
            d4 = pickle.loads(pickle.dumps(d4, protocol=[pickle.HIGHEST_PROTOCOL, 2][spec.get("chain_origin", 0) // 5 % 2]))
        elif how == "copy":
            d4 = copy.copy(d4)
        elif how == "deepcopy":
            d4 = copy.deepcopy(d4)
        elif how == "copy-method":
            d4 = d4.copy()
        ctx.cls(f"edited-after:{how}")
        if spec.get("rejected_first"):
            # a documented rejection (negative radius) precedes the valid requests; whatever it leaves behind, the valid
            # assignments that follow must be honoured
            try:
                d4.radius = -abs(spec["rejected_first"])
                ctx.fail("droplet:negative-radius-accepted", "radius = negative value did not raise")
            except ValueError:
                ctx.cls("after-rejected-radius")
        for v in spec.get("volume_chain", []):
            d4.volume = v
            ctx.require(close(d4.volume, v), f"droplet:volume-setter-chain:dim{dim}", f"chain {spec['volume_chain']} from r={spec.get('start_radius')}: set {v!r}, read {d4.volume!r}")
            ctx.require(close(d4.radius, O.sphere_radius_from_volume(v, dim)), f"droplet:volume-setter-chain-radius:dim{dim}", f"set V={v!r}, radius {d4.radius!r}")
        d3 = cls.from_volume(p, r0)
        ctx.require(type(d3) is cls and close(d3.volume, r0) and np.array_equal(d3.position, p), f"droplet:from_volume:dim{dim}", f"from_volume({r0}) -> {d3}")


PROP = C12()
