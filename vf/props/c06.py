"""C06 - tracking neither loses, duplicates nor alters droplets."""

from __future__ import annotations

from collections import Counter

from hypothesis import strategies as st

from vf import gen
from vf import tracking as T
from vf.engine import Ctx, Property


class C06(Property):
    id = "C06"
    rule = (
        "Hypothesis builds emulsion time courses: 0-6 (thorough 10) frames incl. empty ones, 0-5 (8) droplets per frame of any class "
        "(Spherical, Diffuse, Perturbed2D/3D; sometimes mixed), dim 1-3, strictly increasing int/float/negative/irregular times, "
        "three placement modes (free = may overlap within a frame; jittered lattice = never overlaps; identity-preserving motion with "
        "drift across periodic boundaries), both matching methods, cut-offs {absent, inf, 0, small, medium, large}, with/without a "
        "(partly) periodic grid. Exhaustive: every subset of a 1-D lattice of 4 (thorough 5) sites per frame x 3 frames x "
        "{overlap, distance x 3 cut-offs} x {no grid, periodic grid}. Invariant: the multiset of (time, class, record bytes) over all "
        "tracks equals that over all frames; under the no-within-frame-overlap premise (oracle metric) track times are strictly "
        "increasing and form a gap-free run of frame times; the input time course is byte- and identity-identical afterwards. "
        "Non-trivial = >= 2 non-empty frames and (an appearance, a disappearance, an empty frame between non-empty ones, or a "
        "periodic grid); distinct = distinct spec hash."
    )
    assumptions = [
        "the second sentence is judged only when no two droplets of any frame overlap under the metric that is passed to the tracker (1e-9 margin)",
    ]

    def budget(self, tier):
        return {"examples": 8000 if tier == "quick" else 100000, "shards": 16}

    def strategy(self, tier):
        return gen.rarely(T.crowd_specs(tier), T.time_courses(tier=tier), 80)

    def exhaustive_jobs(self, tier):
        return T.lattice_jobs(4 if tier == "quick" else 5) + T.crowd_jobs(tier)

    def expand(self, job):
        if job.get("crowd"):
            return iter([T.crowd_job_spec(job)])
        return T.lattice_expand(job)

    def check(self, spec, ctx: Ctx):
        from droplets import DropletTrackList

        if spec["mode"] == "crowd":
            spec = T.expand_crowd(spec)
            ctx.cls("crowd>" + str(max(t for t in (32, 64, 128, 256, 512, 1024, 2048, 4096) if spec["crowd"] > t)))
        etc, geom, grid = T.build_time_course(spec)
        frames = spec["frames"]
        snap = T.snapshot(etc)
        tracks = T.run_tracker(spec, etc, grid)
        nonempty = [k for k, f in enumerate(frames) if f]
        ctx.cls(spec["mode"], spec["method"], f"dim{spec['dim']}", "grid" if grid is not None else "nogrid", f"frames{len(frames)}")
        if spec.get("far"):
            ctx.cls("far-from-origin")
        counts = [len(f) for f in frames]
        gap = any(counts[k] == 0 for k in range(nonempty[0], nonempty[-1])) if len(nonempty) >= 2 else False
        varying = len(set(counts)) > 1
        if gap:
            ctx.cls("empty-frame-between")
        ctx.nontrivial = len(nonempty) >= 2 and (gap or varying or (grid is not None and any(geom.periodic)))
        ctx.require(isinstance(tracks, DropletTrackList), "type", f"returned {type(tracks).__name__}")
        # input untouched
        ctx.require(T.snapshot(etc) == snap, "input-modified", "the time course passed in was modified")
        # partition: multiset of (time, class, bytes)
        got = Counter((T.tkey(t), type(d).__name__, d.data.tobytes()) for tr in tracks for t, d in zip(tr.times, tr.droplets))
        exp = Counter((T.tkey(t), type(d).__name__, d.data.tobytes()) for t, e in zip(etc.times, etc.emulsions) for d in e)
        if got != exp:
            missing = sum((exp - got).values())
            extra = sum((got - exp).values())
            ctx.fail(f"partition:{spec['method']}", f"{missing} droplet(s) missing, {extra} extra/altered/mis-stamped in the tracks")
        input_ids = {id(x) for e in etc.emulsions for x in e}
        for tr in tracks:
            ctx.require(len(tr.times) == len(tr.droplets) and len(tr) >= 1, "track:lengths", f"track with {len(tr.times)} times / {len(tr.droplets)} droplets")
            ctx.require(not any(id(d) in input_ids for d in tr.droplets), "track:aliases-input", "a track holds the very object of the input emulsion")
        # second sentence, under its premise
        tol = 0.0 if spec.get("exact") else 1e-9 * spec["site_spacing"]  # exact-arithmetic histories: touching is not overlapping
        if not any(T.frame_has_overlap(f, geom, tol) for f in frames):
            ctx.cls("no-within-frame-overlap")
            ftimes = [T.tkey(t) for t in etc.times]
            for tr in tracks:
                tt = [T.tkey(t) for t in tr.times]
                ok = all(b > a for a, b in zip(tt, tt[1:]))
                ctx.require(ok, f"times-not-increasing:{spec['method']}", f"track times {[float(x) for x in tt]}")
                if ok and tt and tt[0] in ftimes:
                    i0 = ftimes.index(tt[0])
                    ctx.require(ftimes[i0 : i0 + len(tt)] == tt, f"gap-in-track:{spec['method']}", f"track times {[float(x) for x in tt]} are not a run of the frame times {[float(x) for x in ftimes]}")
        else:
            ctx.cls("within-frame-overlap")


PROP = C06()
