"""C20 - collections stay aligned and own their droplets under any sequence of edits.

Model-based testing: Hypothesis generates an operation sequence as data (so it shrinks and
replays as one value); the interpreter applies every operation to the real collection and
to a plain list model and compares after every step."""

from __future__ import annotations

import itertools
import math

import numpy as np
from hypothesis import strategies as st

from vf import gen
from vf import oracles as O
from vf import tracking as T
from vf.engine import Ctx, Property

finite = gen.finite

CLASSES = {1: ["SphericalDroplet", "DiffuseDroplet"], 2: ["SphericalDroplet", "DiffuseDroplet", "PerturbedDroplet2D"], 3: ["SphericalDroplet", "DiffuseDroplet"]}
_coord = st.one_of(st.integers(-4, 4).map(float), st.floats(-10, 10, **finite).map(lambda x: float(round(x, 3))))
_radius = st.one_of(st.sampled_from([0.0, 0.5, 1.0, 1.0, 2.0]), st.floats(0.01, 5, **finite).map(gen.r6))
_width = st.sampled_from([None, 0.0, 0.25, 1.0])
_idx = st.integers(0, 1000)
_time = st.one_of(st.integers(-5, 20), st.floats(-5, 20, **finite).map(gen.r6))


@st.composite
def drop(draw, dim, cls=None):
    cls = cls or draw(st.sampled_from(CLASSES[dim]))
    d = {"cls": cls, "position": [draw(_coord) for _ in range(dim)], "radius": draw(_radius)}
    if cls != "SphericalDroplet":
        d["interface_width"] = draw(_width)
    if cls == "PerturbedDroplet2D":
        d["amplitudes"] = [gen.r6(draw(st.floats(-0.3, 0.3, **finite))) for _ in range(2)]
    return d


def _slice(draw):
    f = st.one_of(st.none(), st.integers(-6, 6))
    step = draw(st.sampled_from([None, 1, 2, -1, -2, 3]))
    return [draw(f), draw(f), step]


@st.composite
def emulsion_ops(draw, dim, cls0, n):
    ops = []
    for _ in range(n):
        name = draw(
            st.sampled_from(
                ["append", "append", "append", "append_nocopy", "extend", "construct", "copy", "copy_min", "slice", "add", "remove_small",
                 "remove_overlapping", "linked_write", "merge", "clear", "reorder", "reject_dim", "reject_layout", "reject_extend", "accept_inconsistent",
                 "mutate_owned", "mutate_owned", "mutate_derived", "mutate_source", "getitem", "queries", "touch_then_remove"]
            )
        )
        op = {"op": name}
        same = draw(st.integers(0, 9)) > 0  # mostly homogeneous collections so that .data works
        if name in ("append", "append_nocopy"):
            op["d"] = draw(drop(dim, cls0 if same else None))
        elif name in ("extend", "add"):
            op["ds"] = [draw(drop(dim, cls0 if same else None)) for _ in range(draw(st.integers(0, 3)))]
        elif name in ("copy_min", "remove_small"):
            op["r"] = draw(st.sampled_from([-1.0, 0.0, 0.5, 1.0, 1.5]))
        elif name == "slice":
            op["s"] = _slice(draw)
        elif name == "remove_overlapping":
            op["md"] = draw(st.sampled_from([0.0, 0.0, -0.5, 0.5]))
        elif name == "touch_then_remove":
            # a droplet is added whose surface is exactly the minimal distance away from an existing member (displaced along the
            # first axis only, so the distance is a plain coordinate difference), then overlaps are removed with that distance
            op["i"] = draw(_idx)
            op["r"] = draw(st.sampled_from([0.5, 1.0, 2.0, 0.25]))
            op["md"] = draw(st.sampled_from([0.0, 0.0, -0.5, 0.5]))
            op["side"] = draw(st.sampled_from([-1.0, 1.0]))
        elif name == "linked_write":
            op["i"] = draw(_idx)
            op["r"] = draw(st.sampled_from([0.25, 0.75, 3.0]))
        elif name == "merge":
            op["i"], op["j"] = draw(_idx), draw(_idx)
        elif name == "reorder":  # in-place list operations on the emulsion: reverse, swap two members, rotate
            op["how"] = draw(st.sampled_from(["reverse", "swap", "rotate"]))
            op["i"], op["j"] = draw(_idx), draw(_idx)
        elif name == "reject_dim":
            op["d"] = draw(drop(dim % 3 + 1, "SphericalDroplet" if cls0 == "PerturbedDroplet2D" else cls0))
        elif name in ("reject_layout", "accept_inconsistent"):
            other = [c for c in CLASSES[dim] if c != cls0]
            op["d"] = draw(drop(dim, draw(st.sampled_from(other))))
        elif name == "reject_extend":  # a wrong droplet in the middle of a batch: good ones, the bad one, another good one
            other = [c for c in CLASSES[dim] if c != cls0]
            op["d"] = draw(drop(dim, draw(st.sampled_from(other))))
            op["ds"] = [draw(drop(dim, cls0)) for _ in range(draw(st.integers(1, 3)))]
            op["k"] = draw(st.integers(0, 2))
            op["src"] = draw(st.sampled_from(["list", "emulsion", "emulsion-copy", "generator"]))
        elif name in ("mutate_owned", "mutate_derived", "mutate_source", "getitem"):
            op["i"] = draw(_idx)
            op["r"] = draw(st.sampled_from([0.125, 7.0]))
        ops.append(op)
    return ops


@st.composite
def timecourse_ops(draw, dim, cls0, n):
    ops = []
    for _ in range(n):
        name = draw(st.sampled_from(["append", "append", "append_time", "append_time", "append_nocopy", "slice", "clear", "construct", "mutate_owned", "mutate_derived", "getitem", "get_emulsion", "queries"]))
        op = {"op": name}
        if name.startswith("append"):
            op["ds"] = [draw(drop(dim, cls0)) for _ in range(draw(st.integers(0, 3)))]
            if name != "append":
                op["t"] = draw(_time)
        elif name == "slice":
            op["s"] = _slice(draw)
        elif name in ("mutate_owned", "mutate_derived", "getitem"):
            op["i"] = draw(_idx)
        elif name == "get_emulsion":
            op["t"] = draw(_time)
        ops.append(op)
    return ops


@st.composite
def track_ops(draw, dim, cls0, n):
    ops = []
    for _ in range(n):
        name = draw(st.sampled_from(["append", "append", "append_time", "append_time", "reject_dim", "slice", "mutate_owned", "mutate_derived", "construct", "queries", "new_track", "remove_short", "get_position"]))
        op = {"op": name}
        if name in ("append", "append_time"):
            op["d"] = draw(drop(dim, cls0))
            if name == "append_time":
                op["dt"] = draw(st.sampled_from([1, 1, 2, 0.5, 3.25]))
        elif name == "reject_dim":
            op["d"] = draw(drop(dim % 3 + 1, "SphericalDroplet"))
        elif name == "slice":
            op["s"] = _slice(draw)
        elif name in ("mutate_owned", "mutate_derived", "get_position"):
            op["i"] = draw(_idx)
        elif name == "remove_short":
            op["min"] = draw(st.sampled_from([0, 0.5, 1, 2, 5]))
        ops.append(op)
    return ops


@st.composite
def specs(draw, tier):
    machine = draw(st.sampled_from(["emulsion", "emulsion", "timecourse", "track"]))
    dim = draw(st.integers(1, 3))
    cls0 = draw(st.sampled_from(CLASSES[dim]))
    n = draw(st.integers(1, 50 if tier == "quick" else 200))
    f = {"emulsion": emulsion_ops, "timecourse": timecourse_ops, "track": track_ops}[machine]
    spec = {"machine": machine, "dim": dim, "cls": cls0, "ops": draw(f(dim, cls0, n))}
    fam = draw(st.sampled_from([None, None, None, None, [1.0, 1e-7], [10.0, 1e-9], [0.3, 3e-9], [1e8, 1.0]]))
    if fam is not None:
        # nearly monodisperse history: every positive droplet radius is replaced by base + k * step (k = 0..15), so that the
        # spread of radii and volumes is many orders of magnitude smaller than their mean
        spec["radius_family"] = fam

        def remap(o):
            if isinstance(o, dict):
                if "radius" in o and "position" in o and o["radius"] > 0:
                    o["radius"] = float(fam[0] + (int(round(o["radius"] * 1000)) % 16) * fam[1])
                for v in o.values():
                    remap(v)
            elif isinstance(o, list):
                for v in o:
                    remap(v)

        remap(spec["ops"])
    if machine == "emulsion" and draw(st.integers(0, 3)) == 2:
        # the whole history far away from the origin (coordinates of 1e6 ... 1e8 with sizes and separations of order one)
        far = [float(draw(st.sampled_from([-1.0, 1.0])) * 10.0 ** draw(st.integers(6, 8)) * draw(st.sampled_from([1.0, 0.37, 2.9]))) for _ in range(3)]
        spec["far"] = far

        def shift(o):
            if isinstance(o, dict):
                if "radius" in o and "position" in o:
                    o["position"] = [float(x + f) for x, f in zip(o["position"], far)]
                for v in o.values():
                    shift(v)
            elif isinstance(o, list):
                for v in o:
                    shift(v)

        shift(spec["ops"])
    return spec


# --- model helpers ----------------------------------------------------------------------------
def enc(d):
    return (type(d).__name__, d.data.dtype, d.data.tobytes())


def dec(entry):
    return np.frombuffer(entry[2], dtype=entry[1])[0]


def same(real, model):
    return len(real) == len(model) and all(enc(a) == b for a, b in zip(real, model))


def mk(d):
    return T.build_droplet(d)


def py_slice(s):
    return slice(s[0], s[1], s[2])


def vol_of(entry):
    r = dec(entry)
    dim = len(np.atleast_1d(r["position"]))
    if entry[0] == "PerturbedDroplet2D":
        return math.pi * float(r["radius"]) ** 2 * (1 + float(np.sum(np.asarray(r["amplitudes"]) ** 2)) / 2)
    return float(O.sphere_volume(float(r["radius"]), dim))


class C20(Property):
    id = "C20"
    rule = (
        "Model-based testing. Hypothesis generates operation sequences (1-50 steps quick, 1-200 thorough) as data for three machines: "
        "Emulsion (append default/copy=False, extend, construct-from-existing, copy, copy(min_radius), slice with any start/stop/step, +, "
        "remove_small, remove_overlapping, get_linked_data+write, in-place merge of two members, clear, rejected / accepted inconsistent "
        "appends, mutation of a caller-owned droplet after it was added, mutation through a copy/slice and through the source, summary "
        "queries), EmulsionTimeCourse (append with implicit/explicit time and copy flag, slice, clear, copy-construct, ownership probes, "
        "nearest-time lookup) and DropletTrack/DropletTrackList (append with/without time, wrong-dimension append, slice, ownership "
        "probes, trajectories, durations, remove_short_tracks). Every step is mirrored on a list model of (class, dtype, record bytes) "
        "(+ times) and compared. Exhaustive companion: all sequences of length <= 4 over a 7-operation alphabet. Non-trivial = the "
        "sequence contains an ownership probe after >= 3 structural operations; distinct = distinct spec hash."
    )
    assumptions = [
        "for append(copy=False) only content equality is asserted (aliasing is unspecified); such droplets are never mutated afterwards",
        "remove_overlapping inside a history is modelled by its post-conditions (sub-sequence, separation, justified removals, strictly largest survives - ties make the exact survivor set ambiguous), then the model adopts the result",
        "summary queries are compared with their definitions over the model to rtol 1e-12; 3-D perturbed classes are left out (their volume needs adaptive quadrature)",
    ]

    def budget(self, tier):
        return {"examples": 4000 if tier == "quick" else 60000, "shards": 16}

    def strategy(self, tier):
        return specs(tier)

    # --- exhaustive companion -------------------------------------------------------------
    ALPHABET = [
        {"op": "append", "d": {"cls": "SphericalDroplet", "position": [0.0, 0.0], "radius": 1.0}},
        {"op": "append", "d": {"cls": "SphericalDroplet", "position": [3.0, 0.0], "radius": 0.5}},
        {"op": "mutate_owned", "i": 0, "r": 7.0},
        {"op": "slice", "s": [None, None, -1]},
        {"op": "mutate_derived", "i": 0, "r": 0.125},
        {"op": "copy_min", "r": 0.5},
        {"op": "linked_write", "i": 0, "r": 3.0},
    ]

    def exhaustive_jobs(self, tier):
        return [{"domain": "emulsion-alphabet7-len<=4", "first": k, "maxlen": 4 if tier == "quick" else 5} for k in range(len(self.ALPHABET))]

    def expand(self, job):
        A = self.ALPHABET
        for n in range(1, job["maxlen"] + 1):
            for seq in itertools.product(range(len(A)), repeat=n):
                if seq[0] != job["first"]:
                    continue
                ops = [A[k] for k in seq] + [{"op": "queries"}]
                yield {"machine": "emulsion", "dim": 2, "cls": "SphericalDroplet", "ops": ops}

    # --- interpreter --------------------------------------------------------------------------
    def check(self, spec, ctx: Ctx):
        m = spec["machine"]
        ctx.cls(m, spec["cls"], f"dim{spec['dim']}", f"len{min(len(spec['ops']) // 10 * 10, 100)}+")
        structural = 0
        probe_after = False
        for op in spec["ops"]:
            if op["op"].startswith("mutate"):
                if structural >= 3:
                    probe_after = True
            elif op["op"] not in ("queries", "getitem", "get_emulsion", "get_position"):
                structural += 1
        ctx.nontrivial = probe_after
        self._exact_touch = False
        getattr(self, "_run_" + m)(spec, ctx)
        if self._exact_touch:
            ctx.cls("overlap-removal-with-exactly-touching-droplets")

    # ---------------- Emulsion -------------------------------------------------------------------
    def _run_emulsion(self, spec, ctx):
        from droplets import Emulsion

        E = Emulsion()
        M = []  # model: list of (cls, dtype, bytes)
        owned = []  # (caller object, index hint) added with the default copy
        derived = []  # (real derived emulsion, model snapshot)
        nocopy_ids = set()
        link = None  # (array returned by get_linked_data, the droplet objects it was linked to)

        def fail(sig, msg):
            ctx.fail(f"emulsion:{sig}", msg)

        def check_derived(R, model, how):
            if not isinstance(R, Emulsion):
                fail(f"{how}:type", f"{how} returned {type(R).__name__}")
                return False
            if not same(R, model):
                fail(f"{how}:content", f"{how}: content {[enc(x)[0] for x in R]} differs from the model ({len(model)} entries)")
                return False
            for a in R:
                for b in E:
                    if a is b or np.shares_memory(a.data, b.data):
                        fail(f"{how}:aliases-source", f"{how}: result shares a droplet / memory with the source")
                        return False
            derived.append((R, list(model)))
            return True

        for step, op in enumerate(spec["ops"]):
            name = op["op"]
            n = len(M)
            if name == "append":
                d = mk(op["d"])
                E.append(d)
                M.append(enc(d))
                owned.append(d)
            elif name == "append_nocopy":
                d = mk(op["d"])
                E.append(d, copy=False)
                M.append(enc(d))
                nocopy_ids.add(id(d))
            elif name == "extend":
                ds = [mk(x) for x in op["ds"]]
                E.extend(ds)
                M.extend(enc(d) for d in ds)
                owned.extend(ds)
            elif name == "construct":
                check_derived(Emulsion(E), M, "construct")
            elif name == "copy":
                check_derived(E.copy(), M, "copy")
            elif name == "copy_min":
                check_derived(E.copy(min_radius=op["r"]), [e for e in M if float(dec(e)["radius"]) > op["r"]], "copy_min")
            elif name == "slice":
                sl = py_slice(op["s"])
                check_derived(E[sl], M[sl], "slice")
            elif name == "add":
                other = Emulsion([mk(x) for x in op["ds"]])
                check_derived(E + other, M + [enc(d) for d in other], "add")
            elif name == "remove_small":
                E.remove_small(op["r"])
                M[:] = [e for e in M if float(dec(e)["radius"]) > op["r"]]
            elif name in ("remove_overlapping", "touch_then_remove"):
                if name == "touch_then_remove" and len(E):
                    base = E[op["i"] % len(E)]
                    nd = base.copy()
                    nd.radius = op["r"]
                    newpos = np.array(base.position, float)
                    newpos[0] = newpos[0] + op["side"] * (float(base.radius) + op["r"] + op["md"])
                    nd.position = newpos
                    E.append(nd)
                    M.append(enc(nd))
                    owned.append(nd)
                before = [enc(d) for d in E]
                E.remove_overlapping(op["md"])
                after = [enc(d) for d in E]
                it = iter(before)
                if not all(any(a == b for b in it) for a in after):
                    fail("remove_overlapping:not-a-subsequence", "remove_overlapping changed or reordered droplets")
                    return
                # list-model post-conditions (Euclidean metric): separation, justification, largest survives
                recs_b = [dec(e) for e in before]
                P = [np.atleast_1d(r["position"]).astype(float) for r in recs_b]
                Rr = [float(r["radius"]) for r in recs_b]
                if len({len(p) for p in P}) <= 1:
                    keep, j0 = [], 0
                    for a in after:
                        while before[j0] != a:
                            j0 += 1
                        keep.append(j0)
                        j0 += 1
                    md = op["md"]
                    # slack: 1e-9 of the sizes / separations involved plus the rounding of a coordinate difference
                    cmax = max([abs(x) for p in P for x in p] + [0.0])
                    spread = max([float(np.abs(p - P[0]).max()) for p in P] + [0.0])
                    sl = 1e-9 * (1 + spread + max(Rr + [0.0])) + 64 * np.finfo(float).eps * cmax
                    def dyadic(v):
                        return abs(v) < 2**20 and float(v * 1024).is_integer()

                    okmd = dyadic(float(md))
                    ex = [okmd and all(dyadic(float(x)) for x in P[i]) and dyadic(Rr[i]) for i in range(len(P))]
                    # two droplets with dyadic parameters whose centres differ along one axis only: their surface distance is exact, so
                    # such pairs - also exactly touching ones - are judged without slack
                    slk = lambda i, j: 0.0 if (ex[i] and ex[j] and int(np.count_nonzero(P[i] != P[j])) <= 1) else sl
                    surf = lambda i, j: float(np.linalg.norm(P[i] - P[j])) - Rr[i] - Rr[j]
                    if any(slk(i, j) == 0.0 and surf(i, j) == md for i in range(len(P)) for j in range(i + 1, len(P))):
                        self._exact_touch = True
                    for a_ in range(len(keep)):
                        for b_ in range(a_ + 1, len(keep)):
                            if surf(keep[a_], keep[b_]) < md - slk(keep[a_], keep[b_]):
                                fail("remove_overlapping:still-too-close", f"survivors {keep[a_]},{keep[b_]} closer than {md}")
                    for k in range(len(before)):
                        if k not in keep and not any(j != k and Rr[j] >= Rr[k] and surf(k, j) < md + slk(k, j) for j in range(len(before))):
                            fail("remove_overlapping:unjustified", f"droplet {k} (r={Rr[k]}) removed although no at-least-as-large droplet is closer than {md}")
                    if before:
                        kmax = int(np.argmax(Rr))
                        if all(Rr[kmax] > Rr[j] for j in range(len(Rr)) if j != kmax) and kmax not in keep:
                            fail("remove_overlapping:largest-removed", f"strictly largest droplet {kmax} was removed")
                M[:] = after
            elif name == "linked_write":
                classes = {e[0] for e in M}
                layouts = {(e[0], str(e[1])) for e in M}
                if n == 0 or len(layouts) != 1:
                    continue  # tabular data is only defined for one class / layout
                data = E.get_linked_data()
                if not (isinstance(data, np.ndarray) and len(data) == n):
                    fail("linked:shape", f"get_linked_data returned {type(data).__name__} of length {len(data) if hasattr(data, '__len__') else '?'}")
                    return
                i = op["i"] % n
                data["radius"][i] = op["r"]
                rec = dec(M[i]).copy()
                rec["radius"] = op["r"]
                M[i] = (M[i][0], M[i][1], rec.tobytes())
                if float(E[i].radius) != op["r"]:
                    fail("linked:write-not-reflected", f"writing radius {op['r']} into the linked array left droplet {i} at {E[i].radius}")
                    return
                link = (data, list(E))  # kept: the link must survive whatever happens to the emulsion afterwards
                del classes
            elif name == "merge":
                if n < 2 or len({(e[0], str(e[1])) for e in M}) != 1 or M[0][0] == "PerturbedDroplet2D":
                    continue
                i, j = op["i"] % n, op["j"] % n
                if i == j:
                    continue
                a, b = dec(M[i]), dec(M[j])
                dim = spec["dim"]
                Va, Vb = O.sphere_volume(float(a["radius"]), dim), O.sphere_volume(float(b["radius"]), dim)
                if Va + Vb <= 0:
                    continue
                ret = E[i].merge(E[j], inplace=True)
                if ret is not E[i]:
                    fail("merge:return", "merge(inplace=True) did not return the member")
                new = E[i]
                okv = abs(new.volume - (Va + Vb)) <= 1e-12 * (Va + Vb)
                xexp = (Va * np.atleast_1d(a["position"]) + Vb * np.atleast_1d(b["position"])) / (Va + Vb)
                okp = bool(np.all(np.abs(new.position - xexp) <= 1e-12 * max(1.0, np.abs(xexp).max())))
                if not (okv and okp):
                    fail("merge:value", f"merged member {new} does not match V={Va + Vb}, x={xexp}")
                M[i] = enc(new)
            elif name == "clear":
                E.clear()
                M.clear()
            elif name == "reorder":
                if n >= 2:
                    if op["how"] == "reverse":
                        E.reverse()
                        M.reverse()
                    elif op["how"] == "swap":
                        i, j = op["i"] % n, op["j"] % n
                        E[i], E[j] = E[j], E[i]
                        M[i], M[j] = M[j], M[i]
                    else:
                        E.append(E.pop(0), copy=False)
                        M.append(M.pop(0))
            elif name in ("reject_dim", "reject_layout"):
                if n == 0:
                    continue
                d = mk(op["d"])
                if d.data.dtype == M[0][1] and E.dtype == d.data.dtype:
                    continue
                if E.dtype == d.data.dtype:
                    continue
                try:
                    E.append(d, force_consistency=True)
                    fail(f"{name}:accepted", f"append(force_consistency=True) accepted {d} into an emulsion of dtype {E.dtype}")
                    return
                except ValueError:
                    pass
            elif name == "reject_extend":
                if n == 0:
                    continue
                bad = mk(op["d"])
                good = [mk(x) for x in op["ds"]]
                if any(g.data.dtype != E.dtype for g in good) or bad.data.dtype == E.dtype:
                    continue  # the emulsion is not of the expected class at this point of the history
                k = min(op["k"], len(good))
                batch = good[:k] + [bad] + good[k:]
                src = op.get("src", "list")
                if src == "emulsion":  # the batch arrives as another (mixed) emulsion built without consistency requested
                    batch = Emulsion(batch)
                elif src == "emulsion-copy":
                    batch = Emulsion(batch).copy()
                elif src == "generator":
                    batch = (b for b in list(batch))
                try:
                    E.extend(batch, force_consistency=True)
                    fail("reject_extend:accepted", f"extend(force_consistency=True) accepted {bad} into an emulsion of dtype {E.dtype}")
                    return
                except ValueError:
                    pass
                # "add many droplets" = one append after the other: the droplets before the rejected one are stored (as copies),
                # the rejected one and everything after it are not; the emulsion stays usable
                M.extend(enc(g) for g in good[:k])
                owned.extend(good[:k])
            elif name == "accept_inconsistent":
                d = mk(op["d"])
                E.append(d)
                if not same(E, M + [enc(d)]):
                    fail("accept_inconsistent:content", "append without force_consistency did not store the droplet")
                    return
                E.pop()
            elif name == "mutate_owned":
                if not owned:
                    continue
                d = owned[op["i"] % len(owned)]
                d.radius = op["r"]
                d.position = np.asarray(d.position) + 1.0
            elif name == "mutate_derived":
                cand = [(R, snap) for R, snap in derived if len(R) > 0]
                if not cand:
                    continue
                R, snap = cand[op["i"] % len(cand)]
                k = op["i"] % len(R)
                R[k].radius = op["r"]
                rec = dec(snap[k]).copy()
                rec["radius"] = op["r"]
                snap[k] = (snap[k][0], snap[k][1], rec.tobytes())
            elif name == "mutate_source":
                cand = [k for k in range(n) if id(E[k]) not in nocopy_ids]
                if not cand:
                    continue
                k = cand[op["i"] % len(cand)]
                E[k].radius = op["r"]
                rec = dec(M[k]).copy()
                rec["radius"] = op["r"]
                M[k] = (M[k][0], M[k][1], rec.tobytes())
            elif name == "getitem":
                if n:
                    k = op["i"] % n
                    if enc(E[k]) != M[k] or enc(E[k - n]) != M[k]:
                        fail("getitem", f"E[{k}] differs from the model")
            elif name == "queries":
                self._emulsion_queries(E, M, spec, fail)
            # --- invariants after every step ------------------------------------------------
            if not same(E, M):
                fail(f"content-after:{name}", f"step {step} ({name}): collection {[(enc(x)[0], dec(enc(x))['radius']) for x in E]} differs from the model {[(e[0], float(dec(e)['radius'])) for e in M]}")
                return
            for R, snap in derived:
                if not same(R, snap):
                    fail(f"derived-changed-after:{name}", f"step {step} ({name}): a copy/slice/sum obtained earlier changed")
                    return
            if link is not None:
                # documented for get_linked_data: the array mirrors the droplets it was linked to - for as long as those droplet
                # objects are members of the emulsion, whatever was done to them through the emulsion or the droplets
                arr, objs_l = link
                members = {id(x) for x in E}
                for row, o in zip(arr, objs_l):
                    if id(o) in members and row.tobytes() != o.data.tobytes():
                        fail(f"link-broken-after:{name}", f"step {step} ({name}): a row of the array obtained from get_linked_data no longer mirrors its droplet ({row} vs {o})")
                        return
            if ctx.violations:
                return
        self._emulsion_queries(E, M, spec, fail)

    def _emulsion_queries(self, E, M, spec, fail):
        from droplets import Emulsion

        n = len(M)
        recs = [dec(e) for e in M]
        radii = np.array([float(r["radius"]) for r in recs])
        if len(E) != n:
            fail("len", f"len {len(E)} != {n}")
        vols = np.array([vol_of(e) for e in M])

        def close(a, b):
            if isinstance(a, float) and math.isnan(a):
                return isinstance(b, float) and math.isnan(b) or (np.ndim(b) == 0 and np.isnan(b))
            if not (math.isfinite(a) and math.isfinite(b)):
                return a == b  # a non-finite value only matches the identical non-finite value
            return abs(a - b) <= 1e-12 * max(abs(a), abs(b)) + 1e-290

        for incl in (True, False):
            st_ = E.get_size_statistics(incl_vanished=incl)
            sel = np.ones(n, bool) if incl else radii > 0
            if n == 0:
                exp = {"count": 0, "radius_mean": math.nan, "radius_std": math.nan, "volume_mean": math.nan, "volume_std": math.nan}
            elif sel.sum() == 0:
                exp = {"count": 0, "radius_mean": math.nan, "radius_std": math.nan, "volume_mean": math.nan, "volume_std": math.nan}
            else:
                exp = {"count": int(sel.sum()), "radius_mean": float(radii[sel].mean()), "radius_std": float(radii[sel].std()), "volume_mean": float(vols[sel].mean()), "volume_std": float(vols[sel].std())}
            for k, v in exp.items():
                got = st_.get(k)
                if k.endswith("_std") and not math.isnan(v):
                    # a standard deviation suffers cancellation: compare relative to the magnitude of the data (one-ulp differences of the
                    # individual values move it by ~1e-16 x magnitude; 1e-13 leaves a factor of several hundred)
                    mag = float(np.abs(radii[sel] if k.startswith("radius") else vols[sel]).max())
                    ok = abs(float(got) - v) <= 1e-13 * mag + 1e-290
                else:
                    ok = got == v if k == "count" else close(float(v), float(got))
                if not ok:
                    fail(f"size-statistics:{k}", f"incl_vanished={incl}: {k}={got} expected {v}")
        tv = E.total_droplet_volume
        if not close(float(vols.sum()), float(tv)):
            fail("total-volume", f"{tv} expected {vols.sum()}")
        # area weighted interface width
        w_sum, a_sum = 0.0, 0.0
        for e, r, d in zip(M, recs, E):
            if e[0] == "SphericalDroplet":
                continue
            w = float(r["interface_width"])
            if math.isnan(w):
                continue
            dim = len(np.atleast_1d(r["position"]))
            a = float(d.surface_area) if e[0] == "PerturbedDroplet2D" else float(O.sphere_surface(float(r["radius"]), dim))
            w_sum += w * a
            a_sum += a
        iw = E.interface_width
        if a_sum == 0:
            if iw is not None:
                fail("interface-width", f"{iw} expected None")
        elif iw is None or not close(w_sum / a_sum, float(iw)):
            fail("interface-width", f"{iw} expected {w_sum / a_sum}")
        if n:
            lo = np.min([np.atleast_1d(r["position"]) - float(r["radius"]) for r in recs], axis=0)
            hi = np.max([np.atleast_1d(r["position"]) + float(r["radius"]) for r in recs], axis=0)
            if len({len(np.atleast_1d(r["position"])) for r in recs}) == 1:
                bb = E.bbox
                got_lo, got_hi = np.asarray(bb.pos, float), np.asarray(bb.pos, float) + np.asarray(bb.size, float)
                # (a cuboid stores its lower corner and its size: the upper corner carries the rounding of coordinates of that magnitude)
                atol_bb = 1e-12 + 16 * np.finfo(float).eps * float(max(np.abs(lo).max(), np.abs(hi).max()))
                if not (np.allclose(got_lo, lo, rtol=1e-12, atol=atol_bb) and np.allclose(got_hi, hi, rtol=1e-12, atol=atol_bb)):
                    fail("bbox", f"bbox [{got_lo},{got_hi}] expected [{lo},{hi}]")
        if n and len({(e[0], str(e[1])) for e in M}) == 1:
            data = E.data
            ok = isinstance(data, np.ndarray) and len(data) == n and data.dtype == M[0][1] and all(data[i].tobytes() == M[i][2] for i in range(n))
            if not ok:
                fail("data", f"Emulsion.data (dtype {getattr(data, 'dtype', None)}, len {len(data)}) does not reproduce the members")
            # documented: "The returned array is a copy of all the data and writing to it will thus not change the underlying data";
            # the write below is followed by the content-equals-model comparison that runs after every step
            try:
                data["radius"][...] = -7.0
                data["position"][...] = 1e9
            except ValueError:
                pass  # a read-only result is fine
        # order independence
        if n >= 2:
            P = Emulsion(list(E)[::-1])
            a, b = E.get_size_statistics(), P.get_size_statistics()
            for k in a:
                tol_k = 1e-9 * max(float(vols.max()), float(radii.max()), 1e-290) if k.endswith("_std") else 0.0
                if not (close(float(a[k]), float(b[k])) or abs(float(a[k]) - float(b[k])) <= tol_k):
                    fail("order-dependence:size-statistics", f"{k}: {a[k]} vs {b[k]} after reversing the members")
            if not close(float(E.total_droplet_volume), float(P.total_droplet_volume)):
                fail("order-dependence:total-volume", "total volume changes with the member order")
            i1, i2 = E.interface_width, P.interface_width
            if (i1 is None) != (i2 is None) or (i1 is not None and not close(float(i1), float(i2))):
                fail("order-dependence:interface-width", f"{i1} vs {i2}")

    # ---------------- EmulsionTimeCourse -------------------------------------------------------
    def _run_timecourse(self, spec, ctx):
        from droplets import Emulsion, EmulsionTimeCourse

        TC = EmulsionTimeCourse()
        M = []  # list of [time, [entries]]
        owned = []
        derived = []

        def fail(sig, msg):
            ctx.fail(f"timecourse:{sig}", msg)

        def same_tc(real, model):
            if not (len(real.times) == len(real.emulsions) == len(model) == len(real)):
                return False
            for t, e, (mt, me) in zip(real.times, real.emulsions, model):
                if float(t) != float(mt) or not same(e, me):
                    return False
            return True

        for step, op in enumerate(spec["ops"]):
            name = op["op"]
            n = len(M)
            if name in ("append", "append_time", "append_nocopy"):
                em = Emulsion([mk(x) for x in op["ds"]])
                entries = [enc(d) for d in em]
                # the frame is handed over as an Emulsion, or as a plain list / tuple / generator of the same droplet objects
                how = (len(op["ds"]) + n) % 4
                frame = [em, list(em), tuple(em), (d for d in list(em))][how]
                if name == "append":
                    TC.append(frame)
                    t = 0 if n == 0 else M[-1][0] + 1
                elif name == "append_time":
                    TC.append(frame, op["t"])
                    t = op["t"]
                else:
                    TC.append(em, op["t"], copy=False)
                    t = op["t"]
                M.append([t, entries])
                if name != "append_nocopy":
                    owned.append(em)
            elif name == "slice":
                sl = py_slice(op["s"])
                R = TC[sl]
                snap = [[t, list(e)] for t, e in M[sl]]
                if not isinstance(R, EmulsionTimeCourse) or not same_tc(R, snap):
                    fail("slice:content", f"slice {op['s']} differs from the model")
                    return
                derived.append((R, snap))
            elif name == "construct":
                R = EmulsionTimeCourse(TC)
                snap = [[t, list(e)] for t, e in M]
                if not same_tc(R, snap):
                    fail("construct:content", "copy-constructed time course differs")
                    return
                derived.append((R, snap))
            elif name == "clear":
                TC.clear()
                M.clear()
            elif name == "mutate_owned":
                cand = [e for e in owned if len(e)]
                if cand:
                    e = cand[op["i"] % len(cand)]
                    e[0].radius = 9.0
                    e.append(e[0])
            elif name == "mutate_derived":
                cand = [(R, s) for R, s in derived if any(len(e) for e in R.emulsions)]
                if cand:
                    R, snap = cand[op["i"] % len(cand)]
                    k = [i for i, e in enumerate(R.emulsions) if len(e)][0]
                    R.emulsions[k][0].radius = 8.0
                    rec = dec(snap[k][1][0]).copy()
                    rec["radius"] = 8.0
                    snap[k][1][0] = (snap[k][1][0][0], snap[k][1][0][1], rec.tobytes())
            elif name == "getitem":
                if n:
                    k = op["i"] % n
                    if not same(TC[k], M[k][1]):
                        fail("getitem", f"TC[{k}] differs")
            elif name == "get_emulsion":
                if n:
                    t = op["t"]
                    got = TC.get_emulsion(t)
                    dmin = min(abs(float(mt) - t) for mt, _ in M)
                    okk = any(abs(float(mt) - t) <= dmin * (1 + 1e-12) + 1e-300 and same(got, me) for mt, me in M)
                    if not okk:
                        fail("get_emulsion", f"get_emulsion({t}) is not an emulsion at a nearest time")
            elif name == "queries":
                pairs = list(TC.items())
                if len(pairs) != n or any(float(t) != float(M[i][0]) or not same(e, M[i][1]) for i, (t, e) in enumerate(pairs)):
                    fail("items", "items() does not pair times and emulsions as appended")
                if [same(e, M[i][1]) for i, e in enumerate(TC)] != [True] * n:
                    fail("iter", "iteration differs from the model")
            if not same_tc(TC, M):
                fail(f"content-after:{name}", f"step {step} ({name}): times {TC.times} / sizes {[len(e) for e in TC.emulsions]} differ from the model {[(t, len(e)) for t, e in M]}")
                return
            for R, snap in derived:
                if not same_tc(R, snap):
                    fail(f"derived-changed-after:{name}", f"step {step} ({name}): an earlier slice/copy changed")
                    return
            for e in TC.emulsions:
                for o in owned:
                    if e is o or any(a is b for a in e for b in o):
                        fail("aliases-caller-emulsion", "time course stores the caller's emulsion / droplets although copy=True")
                        return

    # ---------------- DropletTrack / DropletTrackList -----------------------------------------
    def _run_track(self, spec, ctx):
        from droplets import DropletTrack, DropletTrackList

        TL = DropletTrackList()
        ML = []  # finished tracks: list of (times, entries)
        TR = DropletTrack()
        Mt, Me = [], []
        owned = []
        derived = []
        dim = spec["dim"]

        def fail(sig, msg):
            ctx.fail(f"track:{sig}", msg)

        def same_tr(real, times, entries):
            return len(real.times) == len(real.droplets) == len(times) == len(real) and [float(t) for t in real.times] == [float(t) for t in times] and same(real.droplets, entries)

        for step, op in enumerate(spec["ops"]):
            name = op["op"]
            n = len(Mt)
            if name in ("append", "append_time"):
                d = mk(op["d"])
                if name == "append":
                    TR.append(d)
                    t = 0 if n == 0 else Mt[-1] + 1
                else:
                    t = (Mt[-1] if n else 0) + op["dt"]
                    TR.append(d, time=t)
                Mt.append(t)
                Me.append(enc(d))
                owned.append(d)
            elif name == "reject_dim":
                if n:
                    d = mk(op["d"])
                    try:
                        TR.append(d)
                        fail("wrong-dim-accepted", f"track of dimension {dim} accepted a droplet of dimension {d.dim}")
                        return
                    except ValueError:
                        pass
            elif name == "slice":
                sl = py_slice(op["s"])
                R = TR[sl]
                if not isinstance(R, DropletTrack) or not same_tr(R, Mt[sl], Me[sl]):
                    fail("slice:content", f"slice {op['s']} differs from the model")
                    return
                derived.append((R, list(Mt[sl]), list(Me[sl])))
            elif name == "construct":
                R = DropletTrack(TR)
                if not same_tr(R, Mt, Me):
                    fail("construct:content", "copy-constructed track differs")
                    return
                derived.append((R, list(Mt), list(Me)))
            elif name == "mutate_owned":
                if owned:
                    owned[op["i"] % len(owned)].radius = 9.0
            elif name == "mutate_derived":
                cand = [x for x in derived if len(x[0])]
                if cand:
                    R, ts, es = cand[op["i"] % len(cand)]
                    R.droplets[0].radius = 8.0
                    rec = dec(es[0]).copy()
                    rec["radius"] = 8.0
                    es[0] = (es[0][0], es[0][1], rec.tobytes())
            elif name == "new_track":
                TL.append(TR)
                ML.append((list(Mt), list(Me)))
                TR = DropletTrack()
                Mt, Me = [], []
                owned = []
            elif name == "remove_short":
                TL.remove_short_tracks(op["min"])
                ML[:] = [(ts, es) for ts, es in ML if ((ts[-1] - ts[0]) if ts else 0) > op["min"]]
                if len(TL) != len(ML) or not all(same_tr(r, ts, es) for r, (ts, es) in zip(TL, ML)):
                    fail("remove_short_tracks", f"after remove_short_tracks({op['min']}): {len(TL)} tracks, model {len(ML)}")
                    return
            elif name == "get_position":
                if n:
                    k = op["i"] % n
                    t = Mt[k]
                    k0 = [float(x) for x in Mt].index(float(t))
                    got = np.asarray(TR.get_position(t))
                    if got.tobytes() != np.atleast_1d(dec(Me[k0])["position"]).tobytes():
                        fail("get_position", f"get_position({t}) = {got}")
            elif name == "queries":
                self._track_queries(TR, Mt, Me, dim, fail)
            if not same_tr(TR, Mt, Me):
                fail(f"content-after:{name}", f"step {step} ({name}): track times {TR.times} differ from the model {Mt} or droplets differ")
                return
            for R, ts, es in derived:
                if not same_tr(R, ts, es):
                    fail(f"derived-changed-after:{name}", f"step {step} ({name}): an earlier slice/copy changed")
                    return
            for r, (ts, es) in zip(TL, ML):
                if not same_tr(r, ts, es):
                    fail(f"list-member-changed-after:{name}", "a track stored in the list changed")
                    return
        self._track_queries(TR, Mt, Me, dim, fail)

    def _track_queries(self, TR, Mt, Me, dim, fail):
        n = len(Mt)
        recs = [dec(e) for e in Me]
        if len(TR) != n:
            fail("len", f"{len(TR)} != {n}")
        exp_dur = (Mt[-1] - Mt[0]) if n else 0
        if TR.duration != exp_dur:
            fail("duration", f"{TR.duration} expected {exp_dur}")
        if n:
            if TR.start != Mt[0] or TR.end != Mt[-1]:
                fail("start-end", f"{TR.start}..{TR.end} expected {Mt[0]}..{Mt[-1]}")
            if TR.dim != dim:
                fail("dim", f"{TR.dim} != {dim}")
            traj = TR.get_trajectory()
            exp = np.array([np.atleast_1d(r["position"]) for r in recs])
            if traj.shape != exp.shape or traj.tobytes() != exp.tobytes():
                fail("trajectory", "get_trajectory() differs from the member positions")
            rad = TR.get_radii()
            if not np.array_equal(rad, np.array([float(r["radius"]) for r in recs])):
                fail("radii", "get_radii() differs from the member radii")
            # smoothed trajectories: a Gaussian average over neighbouring time points (kernel cut at 4 sigma, end points repeated),
            # computed here from this definition; the raw values must not change by asking for it
            if n >= 2:
                for sigma in (0.6, 1.7):
                    half = int(4.0 * sigma + 0.5)
                    ks = np.arange(-half, half + 1)
                    w = np.exp(-0.5 * (ks / sigma) ** 2)
                    w /= w.sum()
                    idxs = np.clip(np.arange(n)[:, None] + ks[None, :], 0, n - 1)
                    exp_s = np.einsum("ik,ik...->i...", np.broadcast_to(w, idxs.shape), exp[idxs])
                    got_s = TR.get_trajectory(smoothing=sigma)
                    sc = float(np.abs(exp).max()) + 1e-300
                    if got_s.shape != exp_s.shape or not bool(np.all(np.abs(got_s - exp_s) <= 1e-12 * sc)):
                        fail("trajectory-smoothed", f"get_trajectory(smoothing={sigma}) differs from the Gaussian average of the member positions")
                    exp_r = (w[None, :] * np.array([float(r["radius"]) for r in recs])[idxs]).sum(axis=1)
                    got_r = TR.get_radii(smoothing=sigma)
                    if got_r.shape != exp_r.shape or not bool(np.all(np.abs(got_r - exp_r) <= 1e-12 * (float(np.abs(exp_r).max()) + 1e-300))):
                        fail("radii-smoothed", f"get_radii(smoothing={sigma}) differs from the Gaussian average of the member radii")
                again = TR.get_trajectory()
                if again.tobytes() != exp.tobytes():
                    fail("trajectory-changed-by-smoothing", "after asking for a smoothed trajectory the plain trajectory differs")
            # first / last member, (time, droplet) pairs and iteration follow the member order
            f_, l_ = TR.first, TR.last
            if enc(f_) != Me[0] or enc(l_) != Me[-1]:
                fail("first-last", "first / last are not the first / last member")
            pairs = list(TR.items())
            if [t for t, _ in pairs] != list(Mt) or [enc(d) for _, d in pairs] != list(Me):
                fail("items", "items() does not pair the times with the members in order")
            # the caller owns the returned arrays: writing into them must not leak into the track (checked after the step)
            for arr_out in (traj, rad):
                try:
                    arr_out[...] = -3.0
                except ValueError:
                    pass
            if all(e[0] != "PerturbedDroplet2D" or True for e in Me):
                vols = TR.get_volumes()
                expv = np.array([vol_of(e) for e in Me])
                if not np.allclose(vols, expv, rtol=1e-12, atol=1e-290):
                    fail("volumes", f"get_volumes() {vols} expected {expv}")
            if len({(e[0], str(e[1])) for e in Me}) == 1:
                data = TR.data
                ok = data is not None and len(data) == n and list(data["time"]) == [float(t) for t in Mt]
                if ok:
                    for i in range(n):
                        for key in Me[i][1].names:
                            if np.asarray(data[i][key]).tobytes() != np.asarray(recs[i][key]).tobytes():
                                ok = False
                if not ok:
                    fail("data", "DropletTrack.data does not reproduce times and members")
                else:
                    try:
                        data["radius"][...] = -7.0
                        data["time"][...] = 1e9
                    except ValueError:
                        pass
        else:
            if TR.data is not None or TR.dim is not None:
                fail("empty", "empty track should have data None and dim None")


PROP = C20()
