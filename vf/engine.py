"""Common driver: Hypothesis shards, exhaustive sweeps, statistics, evidence, replay.

A *property module* (vf/props/cXX.py) exposes a module-level object ``PROP`` that is an
instance of a subclass of :class:`Property`.  Cases are JSON-able *specs*;
``PROP.check(spec, ctx)`` rebuilds the inputs deterministically, runs the code under
test and reports through ``ctx``.
"""

from __future__ import annotations

import fnmatch
import hashlib
import json
import logging
import multiprocessing as mp
import os
import re
import sys
import time
import traceback
import warnings
from collections import Counter
from pathlib import Path

ROOT = Path(__file__).resolve().parent.parent
REPO_ROOT = os.environ.get("VF_REPO_OVERRIDE", "/repo")
REPO_PKG = REPO_ROOT + "/droplets"
MAX_NEW_SIGNATURES = int(os.environ.get("VF_MAX_NEW", "3"))  # per run: unlisted signatures minimised + reported


class HarnessError(Exception):
    """Raised by property modules for problems of the harness itself (exit 2)."""


def canon(spec) -> str:
    return json.dumps(spec, sort_keys=True, separators=(",", ":"), default=_json_default)


def _json_default(o):
    import numpy as np

    if isinstance(o, np.generic):
        return o.item()
    if isinstance(o, np.ndarray):
        return o.tolist()
    raise TypeError(f"not JSON-able: {type(o)}")


def digest(spec) -> bytes:
    return hashlib.blake2b(canon(spec).encode(), digest_size=8).digest()


def derive_seed(seed: int, pid: str, shard: int) -> int:
    h = hashlib.sha256(f"{seed}/{pid}/{shard}".encode()).digest()
    return int.from_bytes(h[:8], "big")


class Ctx:
    """Collects the outcome of one case."""

    __slots__ = ("classes", "nontrivial", "violations", "skipped", "notes")

    def __init__(self):
        self.classes: list[str] = []
        self.nontrivial = False
        self.violations: list[tuple[str, str]] = []
        self.skipped: str | None = None
        self.notes: dict = {}

    def cls(self, *names):
        self.classes.extend(str(n) for n in names)

    def fail(self, signature: str, message: str = ""):
        self.violations.append((signature, message[:600]))

    def skip(self, reason: str):
        self.skipped = reason

    def require(self, cond, signature: str, message: str = ""):
        if not cond:
            self.fail(signature, message)
        return bool(cond)


class Property:
    id = "C00"
    rule = ""
    assumptions: list[str] = []
    technique = "property-based testing (Hypothesis)"

    # --- to be provided by subclasses -------------------------------------------------
    def strategy(self, tier: str):
        """Hypothesis strategy producing specs, or None (exhaustive only)."""
        return None

    def budget(self, tier: str) -> dict:
        return {"examples": 500 if tier == "quick" else 20000, "shards": 8 if tier == "quick" else 16}

    def exhaustive_jobs(self, tier: str) -> list:
        """List of small JSON-able job descriptors; see expand()."""
        return []

    def expand(self, job):
        """Iterator over the specs of one exhaustive job."""
        return iter(())

    def check(self, spec, ctx: Ctx) -> None:
        raise NotImplementedError

    def warmup(self):
        """Called once in the parent before forking (compile numba helpers etc.)."""

    def cleanup(self):
        """Called at the end of every worker process (remove scratch files)."""

    # --- helpers ----------------------------------------------------------------------
    def run_case(self, spec) -> Ctx:
        ctx = Ctx()
        try:
            with warnings.catch_warnings():
                warnings.simplefilter("ignore")
                self.check(spec, ctx)
        except HarnessError:
            raise
        except BaseException as exc:  # noqa: BLE001 - classified below
            if isinstance(exc, (KeyboardInterrupt, SystemExit, MemoryError)):
                raise
            sig = exception_signature(exc)
            if sig is None:
                raise HarnessError(
                    f"exception outside the code under test for spec {canon(spec)[:400]}:\n"
                    + "".join(traceback.format_exception(exc))
                ) from exc
            ctx.fail(sig, f"{type(exc).__name__}: {exc}")
        return ctx


def exception_signature(exc: BaseException) -> str | None:
    """'exc:<Type>@<module>:<function>' of the innermost frame inside the repository."""
    tb = traceback.extract_tb(exc.__traceback__)
    inner = None
    for fr in tb:
        if fr.filename.startswith(REPO_PKG):
            inner = fr
    if inner is None:
        return None
    mod = os.path.relpath(inner.filename, REPO_ROOT)
    stem = re.sub(r"[0-9]+(\.[0-9]+)?(e[-+]?[0-9]+)?", "#", str(exc))[:48].strip()
    return f"exc:{type(exc).__name__}@{mod}:{inner.name}:{stem}"


# ------------------------------------------------------------------------------------
# known findings


def load_known(pid: str):
    path = ROOT / "known_findings.json"
    if not path.exists():
        return []
    entries = json.loads(path.read_text())
    return [e for e in entries if e.get("property") == pid and e.get("status") == "open"]


def match_known(known, signature: str):
    for e in known:
        if fnmatch.fnmatchcase(signature, e["signature"]):
            return e
    return None


# ------------------------------------------------------------------------------------
# statistics container (mergeable, picklable)


class Stats:
    def __init__(self):
        self.evaluations = 0
        self.nontrivial = set()
        self.classes = Counter()
        self.skipped = Counter()
        self.samples = {}  # class -> spec
        self.failures = {}  # signature -> (size, spec, message, origin)
        self.fail_counts = Counter()
        self.exhaustive_domains = {}

    def add(self, spec, ctx: Ctx, origin):
        self.evaluations += 1
        if ctx.skipped:
            self.skipped[ctx.skipped] += 1
        for c in ctx.classes:
            self.classes[c] += 1
        if ctx.nontrivial:
            self.nontrivial.add(digest(spec))
            key = ctx.classes[0] if ctx.classes else "-"
            if key not in self.samples and len(self.samples) < 12:
                self.samples[key] = spec
        for sig, msg in ctx.violations:
            self.fail_counts[sig] += 1
            size = len(canon(spec))
            old = self.failures.get(sig)
            if old is None or size < old[0]:
                self.failures[sig] = (size, spec, msg, origin)

    def merge(self, other: "Stats"):
        self.evaluations += other.evaluations
        self.nontrivial |= other.nontrivial
        self.classes.update(other.classes)
        self.skipped.update(other.skipped)
        for k, v in other.samples.items():
            if k not in self.samples and len(self.samples) < 12:
                self.samples[k] = v
        self.fail_counts.update(other.fail_counts)
        for sig, rec in other.failures.items():
            old = self.failures.get(sig)
            if old is None or rec[0] < old[0]:
                self.failures[sig] = rec
        for k, v in other.exhaustive_domains.items():
            self.exhaustive_domains[k] = self.exhaustive_domains.get(k, 0) + v


# ------------------------------------------------------------------------------------
# workers


def _quiet():
    logging.disable(logging.ERROR)
    warnings.simplefilter("ignore")
    import numpy as np

    np.seterr(all="ignore")


def _hyp_settings(max_examples, phases):
    from hypothesis import HealthCheck, settings

    return settings(
        max_examples=max_examples,
        database=None,
        deadline=None,
        derandomize=False,
        report_multiple_bugs=False,
        suppress_health_check=list(HealthCheck),
        phases=phases,
        print_blob=False,
    )


def run_shard(prop: Property, tier: str, seed: int, shard: int, n_examples: int, target_sig=None):
    """Phase A (target_sig None): run n_examples cases, never raise, return Stats.
    Phase B (target_sig given): same seed, raise on that signature so that Hypothesis
    shrinks it; returns the minimal failing (spec, message) or None."""
    import hypothesis
    from hypothesis import Phase, given

    _quiet()
    stats = Stats()
    strat = prop.strategy(tier)
    last_fail = {}

    class _Target(Exception):
        pass

    def body(spec):
        ctx = prop.run_case(spec)
        if target_sig is None:
            stats.add(spec, ctx, ("shard", shard))
        else:
            for sig, msg in ctx.violations:
                if sig == target_sig:
                    last_fail["spec"] = spec
                    last_fail["msg"] = msg
                    raise _Target(sig)

    phases = [Phase.generate] if target_sig is None else [Phase.generate, Phase.shrink]
    test = given(strat)(body)
    test = hypothesis.seed(derive_seed(seed, prop.id, shard))(test)
    test = _hyp_settings(n_examples, phases)(test)
    if target_sig is None:
        test()
        return stats
    import hypothesis.internal.conjecture.engine as ce

    ce.MAX_SHRINKING_SECONDS = 45 if tier == "quick" else 240
    try:
        test()
    except _Target:
        pass
    except Exception as exc:  # e.g. Flaky
        if not last_fail:
            raise HarnessError(f"shrinking failed: {exc!r}") from exc
    return (last_fail.get("spec"), last_fail.get("msg")) if last_fail else None


def run_jobs(prop: Property, jobs):
    _quiet()
    stats = Stats()
    for job in jobs:
        name = job.get("domain", "exhaustive") if isinstance(job, dict) else "exhaustive"
        n = 0
        for spec in prop.expand(job):
            ctx = prop.run_case(spec)
            stats.add(spec, ctx, ("exhaustive", name))
            n += 1
        stats.exhaustive_domains[name] = stats.exhaustive_domains.get(name, 0) + n
    return stats


def _child(conn, fn, args):
    try:
        res = fn(*args)
        try:  # forked workers leave through os._exit (no atexit handlers): give the property a chance to remove its scratch files
            if args and isinstance(args[0], Property):
                args[0].cleanup()
        except Exception:  # noqa: BLE001 - cleaning up must never turn into a verdict
            pass
        conn.send(("ok", res))
    except HarnessError as exc:
        conn.send(("harness", str(exc)))
    except BaseException as exc:  # noqa: BLE001
        conn.send(("harness", "".join(traceback.format_exception(exc))))
    finally:
        conn.close()


def parallel(tasks, max_procs=16):
    """Run (fn, args) tasks in forked children (non-daemonic, so they may use process
    pools themselves).  Returns results in task order; raises HarnessError on failure."""
    ctx = mp.get_context("fork")
    results = [None] * len(tasks)
    pending = list(enumerate(tasks))
    running = {}
    errors = []
    while pending or running:
        while pending and len(running) < max_procs:
            i, (fn, args) = pending.pop(0)
            parent, child = ctx.Pipe(duplex=False)
            p = ctx.Process(target=_child, args=(child, fn, args))
            p.start()
            child.close()
            running[i] = (p, parent)
        ready = mp.connection.wait([c for _, c in running.values()], timeout=1.0)
        for i in list(running):
            p, c = running[i]
            if c in ready:
                try:
                    kind, val = c.recv()
                except EOFError:
                    kind, val = "harness", f"worker {i} died (exit code {p.exitcode})"
                p.join()
                c.close()
                del running[i]
                if kind == "ok":
                    results[i] = val
                else:
                    errors.append(val)
    if errors:
        raise HarnessError("\n".join(errors[:3]))
    return results


# ------------------------------------------------------------------------------------
# main entry points


def load_prop(pid: str) -> Property:
    import importlib

    mod = importlib.import_module(f"vf.props.{pid.lower()}")
    return mod.PROP


def replay_files(pid: str):
    return sorted((ROOT / "replays").glob(f"{pid}-*.json"))


def write_replay(pid, spec, signature, message) -> Path:
    d = Path(os.environ.get("VF_REPLAY_OUT", ROOT / "replays"))
    d.mkdir(exist_ok=True, parents=True)
    sha = hashlib.sha256(canon(spec).encode()).hexdigest()[:8]
    path = d / f"{pid}-{sha}.json"
    path.write_text(
        json.dumps(
            {"property": pid, "signature": signature, "message": message, "spec": spec},
            indent=1,
            default=_json_default,
        )
        + "\n"
    )
    return path


def run_replay(pid: str, path: str) -> int:
    _quiet()
    prop = load_prop(pid)
    known = load_known(pid)
    rec = json.loads(Path(path).read_text())
    ctx = prop.run_case(rec["spec"])
    bad = [(s, m) for s, m in ctx.violations if not match_known(known, s)]
    for s, m in ctx.violations:
        e = match_known(known, s)
        if e:
            print(f"KNOWN-FINDING: property={pid} {e['what']}")
    if bad:
        for s, m in bad:
            print(f"  signature={s} {m}")
        print(f"VIOLATION property={pid} replay={path}")
        return 1
    print(f"OK property={pid} replay={path} holds (classes={ctx.classes}, skipped={ctx.skipped})")
    return 0


def run_check(pid: str, tier: str, seed: int) -> int:
    t0 = time.time()
    _quiet()
    prop = load_prop(pid)
    known = load_known(pid)
    prop.warmup()
    total = Stats()
    replayed = 0

    # 1. replay tier (saved counter-examples and regression seeds)
    for path in replay_files(pid):
        rec = json.loads(path.read_text())
        ctx = prop.run_case(rec["spec"])
        total.add(rec["spec"], ctx, ("replay", str(path)))
        replayed += 1

    # 2. exhaustive sweeps
    jobs = prop.exhaustive_jobs(tier)
    tasks = []
    if jobs:
        nproc = min(16, len(jobs))
        buckets = [jobs[i::nproc] for i in range(nproc)]
        tasks += [(run_jobs, (prop, b)) for b in buckets]
    # 3. Hypothesis shards
    bud = prop.budget(tier)
    shards = bud["shards"] if prop.strategy(tier) is not None else 0
    per = max(1, bud["examples"] // max(1, shards))
    tasks += [(run_shard, (prop, tier, seed, s, per)) for s in range(shards)]
    for st in parallel(tasks, max_procs=bud.get("procs", 16)):
        total.merge(st)

    # 4. classify failures
    new = {}
    excluded = Counter()
    known_hit = {}
    for sig, rec in total.failures.items():
        e = match_known(known, sig)
        if e is not None:
            excluded[sig] += total.fail_counts[sig]
            known_hit[e["what"]] = e
        else:
            new[sig] = rec

    violations = []
    for sig, (size, spec, msg, origin) in sorted(new.items(), key=lambda kv: kv[1][0])[:MAX_NEW_SIGNATURES]:
        best = (spec, msg)
        if origin[0] == "shard":
            try:
                res = parallel([(run_shard, (prop, tier, seed, origin[1], per, sig))])[0]
            except HarnessError as exc:
                print(f"note: shrinking of {sig} failed ({str(exc)[:200]}); keeping smallest seen", file=sys.stderr)
                res = None
            if res and res[0] is not None and len(canon(res[0])) <= size:
                best = res
        if origin[0] == "replay":
            path = Path(origin[1])
        else:
            path = write_replay(pid, best[0], sig, best[1])
        violations.append((sig, best[1], path))

    wall = time.time() - t0
    write_evidence(prop, tier, seed, total, replayed, excluded, len(new), wall, bud)

    for what in known_hit:
        print(f"KNOWN-FINDING: property={pid} {what}")
    cls = ", ".join(f"{k}={v}" for k, v in total.classes.most_common(14))
    print(
        f"[{pid}] tier={tier} seed={seed} evaluations={total.evaluations} "
        f"distinct_nontrivial={len(total.nontrivial)} replayed={replayed} skipped={sum(total.skipped.values())} "
        f"excluded_known={sum(excluded.values())} wall={wall:.1f}s"
    )
    print(f"[{pid}] classes: {cls}")
    if violations:
        for sig, msg, path in violations:
            print(f"  signature={sig} count={total.fail_counts[sig]} {msg}")
            print(f"VIOLATION property={pid} replay={os.path.relpath(path, ROOT) if str(path).startswith(str(ROOT)) else path}")
        if len(new) > len(violations):
            print(f"  (+{len(new) - len(violations)} further unlisted signatures: {sorted(new)[:10]})")
        return 1
    return 0


def write_evidence(prop, tier, seed, total: Stats, replayed, excluded, n_new, wall, bud):
    samples = [{"class": k, "spec": v} for k, v in list(total.samples.items())[:8]]
    if not samples:
        samples = [{"class": "-", "spec": None}]
    ex_total = sum(total.exhaustive_domains.values())
    cov = {
        "evaluations": total.evaluations,
        "distinct_nontrivial": len(total.nontrivial),
        "rule": prop.rule,
        "samples": samples,
        "class_histogram": dict(total.classes.most_common()),
        "skipped": dict(total.skipped),
        "excluded_known": dict(excluded),
        "replayed": replayed,
        "exhaustive": bool(ex_total) and prop.strategy(tier) is None,
        "exhaustive_domains": total.exhaustive_domains,
        "generated_cases": total.evaluations - ex_total - replayed,
        "budget": bud,
        "unlisted_failure_signatures": n_new,
    }
    ev = {
        "property_id": prop.id,
        "tier": tier,
        "seed": int(seed),
        "level": "exploration",
        "coverage": cov,
        "assumptions": list(prop.assumptions),
        "wall_s": round(wall, 2),
        "violations": n_new,
    }
    d = Path(os.environ.get("VF_EVIDENCE_DIR", ROOT / "evidence"))
    d.mkdir(exist_ok=True, parents=True)
    text = json.dumps(ev, indent=1, default=_json_default) + "\n"
    (d / f"{prop.id}.json").write_text(text)
    try:
        import jsonschema

        schema = json.loads(Path("/root/.vp/EVIDENCE.schema.json").read_text())
        jsonschema.validate(json.loads(text), schema)
    except ImportError:
        pass
    except FileNotFoundError:
        pass
