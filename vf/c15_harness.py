"""Module-level wrappers that delay individual tasks (importable in forked worker processes).

The delay tables are filled by the harness *before* the process pool is created, so forked
workers inherit them; functools.partial pickles the wrappers by reference."""

import time

REFINE_DELAYS = {}
LOCATE_DELAYS = {}
_orig_refine = None
_orig_locate = None


def droplet_key(droplet):
    return (round(float(droplet.radius), 9),) + tuple(round(float(x), 9) for x in droplet.position)


def frame_key(frame):
    return (round(float(frame.data.sum()), 9), round(float(frame.data.flat[0]), 9))


def delayed_refine(phase_field, droplet, **kwargs):
    time.sleep(REFINE_DELAYS.get(droplet_key(droplet), 0.0))
    return _orig_refine(phase_field, droplet, **kwargs)


def delayed_locate(frame, **kwargs):
    time.sleep(LOCATE_DELAYS.get(frame_key(frame), 0.0))
    return _orig_locate(frame, **kwargs)
