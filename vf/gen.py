"""Shared Hypothesis strategies producing JSON-able specs, and their deterministic builders."""

from __future__ import annotations

import math

import numpy as np
from hypothesis import strategies as st

from vf import oracles as O


def r6(x: float) -> float:
    """round to 6 significant digits (keeps specs short; still an exact float after build)"""
    if x == 0 or not math.isfinite(x):
        return float(x)
    return float(f"{x:.6g}")


finite = dict(allow_nan=False, allow_infinity=False)


@st.composite
def rarely(draw, rare, usual, one_in):
    """`rare` in about one case of `one_in`, else `usual`.  (st.one_of with repeated alternatives does not give this: identical
    alternatives are merged and the ends of an integer range are favoured - hence an explicit draw compared with a mid-range value.)"""
    if draw(st.integers(0, one_in - 1)) == one_in // 2:
        return draw(rare)
    return draw(usual)


# --- Cartesian grids ---------------------------------------------------------------------
@st.composite
def cart_grids(draw, dims=(1, 2, 3), max_shape=(24, 24, 12), min_shape=1, aniso=(0.4, 2.5), periodic=None, log_spacing=(-2.0, 1.5), far=False):
    dim = draw(st.sampled_from(list(dims)))
    cap = max_shape[dim - 1]
    shape = [draw(st.integers(min_shape, cap)) for _ in range(dim)]
    base = 10 ** draw(st.floats(log_spacing[0], log_spacing[1], **finite))
    spacing = [r6(base * draw(st.floats(aniso[0], aniso[1], **finite))) if dim > 1 else r6(base) for _ in range(dim)]
    origin = [r6(s * draw(st.floats(-30, 30, **finite))) for s in spacing]
    if periodic is None:
        per = [draw(st.booleans()) for _ in range(dim)]
    else:
        per = [bool(periodic)] * dim
    if draw(st.integers(0, 9)) == 0 and aniso[0] <= 1 <= aniso[1] and log_spacing[0] <= 0 <= log_spacing[1]:
        # the unit grid: spacing exactly 1, origin 0 (built with pde.UnitGrid, see oracles.make_cart_grid)
        spacing, origin = [1.0] * dim, [0.0] * dim
    elif far and draw(st.integers(0, 7)) == 3:
        # a box far away from the origin: lower corner at 1e6 ... 1e8 box lengths (coordinates much larger than all sizes)
        origin = [float(o + draw(st.sampled_from([-1.0, 1.0])) * 10.0 ** draw(st.integers(6, 8)) * n * d * draw(st.sampled_from([1.0, 0.37, 2.9]))) for o, n, d in zip(origin, shape, spacing)]
    return {"origin": origin, "shape": shape, "spacing": spacing, "periodic": per}


def build_cart(g) -> tuple[O.CartGeom, object]:
    geom = O.CartGeom(g["origin"], g["shape"], g["spacing"], g["periodic"])
    return geom, O.make_cart_grid(geom)


# --- symmetric grids -----------------------------------------------------------------------
@st.composite
def cyl_grids(draw, max_shape=(8, 16), periodic=None):
    nr = draw(st.integers(1, max_shape[0]))
    nz = draw(st.integers(1, max_shape[1]))
    dr = r6(10 ** draw(st.floats(-2, 1.5, **finite)))
    dz = r6(dr * draw(st.floats(0.4, 2.5, **finite)))
    z0 = r6(dz * draw(st.floats(-30, 30, **finite)))
    per = draw(st.booleans()) if periodic is None else bool(periodic)
    return {"nr": nr, "nz": nz, "dr": dr, "dz": dz, "z0": z0, "periodic_z": per}


def build_cyl(g):
    from pde import CylindricalSymGrid

    R = g["dr"] * g["nr"]
    z0 = g["z0"]
    z1 = z0 + g["dz"] * g["nz"]
    return CylindricalSymGrid(R, (z0, z1), (g["nr"], g["nz"]), periodic_z=g["periodic_z"])


def cyl_cell_volumes(g) -> np.ndarray:
    """exact cell volumes pi (r_{i+1}^2 - r_i^2) dz, shape (nr, nz)"""
    r = np.arange(g["nr"] + 1) * g["dr"]
    shell = math.pi * (r[1:] ** 2 - r[:-1] ** 2)
    return np.outer(shell, np.full(g["nz"], g["dz"]))


def bits_to_mask(bits: int, shape) -> np.ndarray:
    n = int(np.prod(shape))
    arr = np.fromiter(((bits >> k) & 1 for k in range(n)), dtype=bool, count=n)
    return arr.reshape(shape)


def mask_to_bits(mask: np.ndarray) -> int:
    out = 0
    for k, v in enumerate(np.asarray(mask, bool).ravel()):
        if v:
            out |= 1 << k
    return out


# --- equivalent representations of the same droplet parameters ---------------------------------------------------------------
def as_given(position, radius, key):
    """The same position / radius handed over in one of several equivalent, commonly used forms (float array, list, tuple,
    integer array when all coordinates are integral, numpy scalar / 0-d array radius).  `key` is any JSON-able value; the choice is
    a pure function of it, so that replay files reproduce the representation."""
    import hashlib
    import json

    h = hashlib.sha256(json.dumps(key, sort_keys=True, default=str).encode()).digest()
    pos = [float(x) for x in position]
    mode = h[0] % 6
    if mode == 0:
        p = np.array(pos, float)
    elif mode == 1:
        p = list(pos)
    elif mode == 2:
        p = tuple(pos)
    elif mode == 3 and all(float(x).is_integer() and abs(x) < 2**31 for x in pos):
        p = np.array(pos, dtype=int)
    elif mode == 4:
        p = np.array(pos + pos, float)[::1][: len(pos)].copy(order="F")  # a fresh array with another memory layout flag
    else:
        p = np.asarray(pos, dtype=np.float64)[::-1][::-1]  # a non-contiguous view with the same values
    rmode = h[1] % 4
    r = float(radius)
    if rmode == 1:
        r = np.float64(r)
    elif rmode == 2:
        r = np.array(r)
    elif rmode == 3 and r.is_integer() and abs(r) < 2**31:
        r = int(r)
    return p, r


def times_as_given(times, key):
    """The same sequence of time stamps as a list, a tuple, a numpy array or a generator-free copy (pure function of `key`)."""
    import hashlib
    import json

    h = hashlib.sha256(json.dumps(key, sort_keys=True, default=str).encode()).digest()[2] % 4
    t = list(times)
    if h == 1:
        return tuple(t)
    if h == 2 and t and all(isinstance(x, (int, float)) for x in t):
        return np.array(t, dtype=float) if any(isinstance(x, float) for x in t) else np.array(t)
    if h == 3:
        return (x for x in t) if False else list(t)
    return t


def frames_as_given(emulsions, key):
    """The frames of a time course as a list of Emulsion objects, a list of plain lists of droplets, or a tuple."""
    import hashlib
    import json

    h = hashlib.sha256(json.dumps(key, sort_keys=True, default=str).encode()).digest()[3] % 3
    if h == 1:
        return [list(e) for e in emulsions]
    if h == 2:
        return tuple(emulsions)
    return list(emulsions)
