import argparse
import os
import sys
import traceback


def main(argv=None):
    ap = argparse.ArgumentParser(prog="check")
    ap.add_argument("pid")
    ap.add_argument("--tier", default=os.environ.get("VERIF_TIER", "quick"), choices=["quick", "thorough"])
    ap.add_argument("--seed", type=int, default=None)
    ap.add_argument("--replay", default=None)
    args = ap.parse_args(argv)
    seed = args.seed
    if seed is None:
        try:
            seed = int(os.environ.get("VERIF_SEED", "1"))
        except ValueError:
            seed = 1
    from vf import engine

    pid = args.pid.upper()
    try:
        if args.replay:
            return engine.run_replay(pid, args.replay)
        return engine.run_check(pid, args.tier, seed)
    except engine.HarnessError as exc:
        print(f"HARNESS-ERROR property={pid}: {exc}", file=sys.stderr)
        return 2
    except Exception:  # noqa: BLE001
        print(f"HARNESS-ERROR property={pid}:\n{traceback.format_exc()}", file=sys.stderr)
        return 2


if __name__ == "__main__":
    sys.exit(main())
