"""Shared generators / builders / oracles for the tracking properties C06 and C07."""

from __future__ import annotations

import itertools
from collections import Counter

import numpy as np
from hypothesis import strategies as st

from vf import gen
from vf import oracles as O

finite = gen.finite


def _times(draw, n):
    kind = draw(st.sampled_from(["int", "float", "neg", "irregular", "offset", "tiny", "big-int"]))
    if kind == "big-int":  # integer time stamps (nanoseconds since the epoch) that a double cannot tell apart
        t = 1_760_000_000_000_000_000 + draw(st.integers(0, 10**6))
        out = []
        for _ in range(n):
            out.append(t)
            t += draw(st.sampled_from([1, 3, 100, 255, 1000]))
        return out
    if kind == "int":
        t0 = draw(st.integers(-5, 5))
        return [t0 + i for i in range(n)]
    if kind == "offset":  # frame spacing that is small compared with the absolute time (all values exactly representable)
        t0 = draw(st.sampled_from([-1.0, 1.0])) * 10.0 ** draw(st.integers(4, 12))
        out, t = [], t0
        for _ in range(n):
            out.append(t)
            t += draw(st.sampled_from([0.25, 0.5, 1.0, 1.0, 2.0, 8.0]))
        return out
    if kind == "tiny":  # times that are all tiny in absolute terms
        u = 10.0 ** -draw(st.integers(6, 12))
        k0 = draw(st.integers(-20, 20))
        out, k = [], k0
        for _ in range(n):
            out.append(k * u)
            k += draw(st.integers(1, 5))
        return out
    steps = [gen.r6(draw(st.floats(0.01, 10, **finite))) for _ in range(n)]
    t0 = gen.r6(draw(st.floats(-100, 100, **finite))) if kind in ("neg", "irregular") else 0.0
    out = []
    t = t0
    for s in steps:
        out.append(gen.r6(t))
        t += s
    # ensure strictly increasing after rounding
    for i in range(1, n):
        if out[i] <= out[i - 1]:
            out[i] = out[i - 1] + 0.5
    return out


def _droplet(draw, cls, dim, pos, r, s):
    d = {"cls": cls, "position": [float(x) for x in pos], "radius": float(r)}
    if cls != "SphericalDroplet":
        d["interface_width"] = draw(st.sampled_from([None, 0.0, gen.r6(0.1 * s)]))
    if cls in ("PerturbedDroplet2D", "PerturbedDroplet3D"):
        d["amplitudes"] = [gen.r6(draw(st.floats(-0.1, 0.1, **finite))) for _ in range(2)]
    return d


@st.composite
def time_courses(draw, mode=None, tier="quick"):
    """mode: 'free' (may overlap within a frame), 'lattice' (no within-frame overlap), 'motion' (identities)"""
    if mode is None:
        mode = draw(st.sampled_from(["free", "lattice", "lattice", "motion"]))
    dim = draw(st.sampled_from([1, 1, 2, 2, 3]))
    m = draw(st.integers(2, 5 if dim == 1 else 3))
    s = gen.r6(10 ** draw(st.floats(-1, 1, **finite)))  # site spacing
    L = [s * m] * dim
    origin = [gen.r6(s * draw(st.integers(-3, 3))) for _ in range(dim)]
    has_grid = draw(st.booleans())
    periodic = [draw(st.booleans()) for _ in range(dim)] if has_grid else [False] * dim
    if mode == "motion" and has_grid and draw(st.booleans()):
        periodic = [True] * dim
    nframes = draw(st.integers(0, 6 if tier == "quick" else 10))
    classes = ["SphericalDroplet", "DiffuseDroplet"] + (["PerturbedDroplet2D"] if dim == 2 else []) + (["PerturbedDroplet3D"] if dim == 3 else [])
    cls0 = draw(st.sampled_from(classes))
    mixed = draw(st.integers(0, 5)) == 0
    sites = list(itertools.product(range(m), repeat=dim))
    max_n = 5 if tier == "quick" else 8
    frames, ids = [], []
    drift = [0.0] * dim
    if mode == "motion":
        v = [gen.r6(s * draw(st.floats(-0.1, 0.1, **finite)) / np.sqrt(dim)) if periodic[a] else 0.0 for a in range(dim)]
        chosen = draw(st.lists(st.sampled_from(sites), min_size=1, max_size=min(max_n, len(sites)), unique=True))
        radii0 = {site: gen.r6(s * draw(st.floats(0.2, 0.29, **finite))) for site in chosen}
    for k in range(nframes):
        fr, fid = [], []
        if mode == "free":
            for _ in range(draw(st.integers(0, max_n))):
                pos = [origin[a] + L[a] * draw(st.floats(-0.5, 1.5, **finite)) for a in range(dim)]
                pos = [gen.r6(x) for x in pos]
                r = gen.r6(s * draw(st.sampled_from([0.0, 0.1, 0.3, 0.6, 1.0])) * draw(st.floats(0.5, 1, **finite)))
                cls = draw(st.sampled_from(classes)) if mixed else cls0
                fr.append(_droplet(draw, cls, dim, pos, r, s))
                fid.append(None)
            if fr and draw(st.integers(0, 3)) == 0:  # an exact duplicate of a droplet of this frame (bit-identical data)
                fr.insert(draw(st.integers(0, len(fr))), dict(fr[draw(st.integers(0, len(fr) - 1))]))
                fid.append(None)
        elif mode == "lattice":
            sub = draw(st.lists(st.sampled_from(sites), min_size=0, max_size=min(max_n, len(sites)), unique=True))
            for site in sub:
                jit = [s * draw(st.floats(-0.2, 0.2, **finite)) for _ in range(dim)]
                pos = [origin[a] + (site[a] + 0.5) * s + jit[a] for a in range(dim)]
                wrapk = [draw(st.integers(-1, 1)) if periodic[a] else 0 for a in range(dim)]
                pos = [gen.r6(pos[a] + wrapk[a] * L[a]) for a in range(dim)]
                r = gen.r6(s * draw(st.floats(0.01, 0.29, **finite)))
                cls = draw(st.sampled_from(classes)) if mixed else cls0
                fr.append(_droplet(draw, cls, dim, pos, r, s))
                fid.append(None)
        else:
            for site in chosen:
                if draw(st.integers(0, 4)) == 0:
                    continue  # absent in this frame
                jit = [s * draw(st.floats(-0.12, 0.12, **finite)) / np.sqrt(dim) for _ in range(dim)]
                pos = [origin[a] + (site[a] + 0.5) * s + jit[a] + drift[a] for a in range(dim)]
                for a in range(dim):
                    if periodic[a] and draw(st.booleans()):  # store wrapped
                        pos[a] = origin[a] + (pos[a] - origin[a]) % L[a]
                pos = [gen.r6(x) for x in pos]
                r = gen.r6(radii0[site] * draw(st.floats(0.97, 1.0, **finite)))
                fr.append(_droplet(draw, cls0, dim, pos, r, s))
                fid.append(list(site))
            drift = [drift[a] + v[a] for a in range(dim)]
        frames.append(fr)
        ids.append(fid)
    far = None
    if not has_grid and draw(st.integers(0, 4)) == 2:
        # the whole history far away from the origin: coordinates of 1e6 ... 1e8 box sizes with droplet sizes and separations of
        # order one (differences of such coordinates are still exact to ~1e-16 x |coordinate|, far below all margins used here)
        far = [float(draw(st.sampled_from([-1.0, 1.0])) * 10.0 ** draw(st.integers(6, 8)) * s * m * draw(st.sampled_from([1.0, 0.37, 2.9]))) for _ in range(dim)]
        for fr in frames:
            for d in fr:
                d["position"] = [float(x + f) for x, f in zip(d["position"], far)]
    method = draw(st.sampled_from(["overlap", "distance"]))
    md = None
    if method == "distance":
        if mode == "motion":
            md = draw(st.sampled_from([None, "inf", gen.r6(0.5 * s), gen.r6(2 * s)]))
        else:
            md = draw(st.sampled_from([None, "inf", 0.0, gen.r6(0.3 * s), gen.r6(s), gen.r6(3 * s), 1e6]))
            pairs = [(k, i, j) for k in range(len(frames) - 1) for i in range(len(frames[k])) for j in range(len(frames[k + 1]))]
            if pairs and draw(st.booleans()):
                # a cut-off just below / exactly at / just above the distance of an actual pair of consecutive frames
                k, i, j = pairs[draw(st.integers(0, len(pairs) - 1))]
                dij = float(np.linalg.norm(np.array(frames[k][i]["position"]) - np.array(frames[k + 1][j]["position"])))
                md = float(dij * draw(st.sampled_from([0.97, 1.0, 1.03, 1.08])))
    spec = {
        "mode": mode,
        "dim": dim,
        "site_spacing": s,
        "grid": {"origin": origin, "shape": [m] * dim, "spacing": [s] * dim, "periodic": periodic} if has_grid else None,
        "times": _times(draw, nframes),
        "frames": frames,
        "method": method,
        "max_dist": md,
    }
    if mode == "motion":
        spec["ids"] = ids
    if far is not None:
        spec["far"] = far
    return spec


# --- crowds: many droplets per frame (counts beyond block sizes, pre-selection thresholds, small integer types) -------------
CROWD_LADDER = {"quick": [33, 40, 70, 130, 260], "thorough": [33, 40, 70, 130, 260, 520]}
CROWD_LADDER_FAST = {"quick": [1100, 1300], "thorough": [1100, 1300, 2300, 4400]}  # (5-20 % of the droplets are absent from a frame)  # distance matching without a grid only


@st.composite
def crowd_specs(draw, tier="quick"):
    """compact description of an identity-preserving motion history of many droplets; expanded by expand_crowd"""
    method = draw(st.sampled_from(["overlap", "distance"]))
    has_grid = draw(st.booleans())
    ladder = list(CROWD_LADDER[tier])
    if method == "distance" and not has_grid:
        ladder += CROWD_LADDER_FAST[tier]
    n = draw(st.sampled_from(ladder))
    dim = draw(st.sampled_from([1, 2, 2, 3])) if n <= 600 else 2
    spec = {
        "mode": "crowd",
        "dim": dim,
        "n": n,
        "seed": draw(st.integers(0, 10**6)),
        "nframes": draw(st.integers(2, 4 if n <= 300 else 3)),
        "has_grid": has_grid,
        "periodic": [draw(st.booleans()) or draw(st.booleans()) for _ in range(dim)] if has_grid else [False] * dim,
        "method": method,
        "max_dist": draw(st.sampled_from([None, "inf", 0.5, 2.0])) if method == "distance" else None,  # in units of the site spacing
        "p_absent": draw(st.sampled_from([0.0, 0.05, 0.2])),
        "site_spacing": gen.r6(10 ** draw(st.floats(-1, 1, **finite))),
    }
    return spec


def crowd_jobs(tier):
    """a fixed sweep over the count ladder x method x grid, so that every size class is visited in every run"""
    jobs = []
    for method in ("overlap", "distance"):
        for has_grid in (False, True):
            ladder = list(CROWD_LADDER[tier]) + (CROWD_LADDER_FAST[tier] if method == "distance" and not has_grid else [])
            for n in ladder:
                for seed in range(2):
                    jobs.append({"domain": "crowd-ladder", "crowd": True, "n": n, "method": method, "has_grid": has_grid, "seed": seed})
    return jobs


def crowd_job_spec(job):
    n, seed = job["n"], job["seed"]
    dim = 2 if n > 40 else [1, 2, 3][(n + seed) % 3]
    return {
        "mode": "crowd",
        "dim": dim,
        "n": n,
        "seed": 7919 * seed + n,
        "nframes": 3,
        "has_grid": job["has_grid"],
        "periodic": [True] * dim if job["has_grid"] else [False] * dim,
        "method": job["method"],
        "max_dist": [None, 0.5][seed % 2] if job["method"] == "distance" else None,
        "p_absent": 0.05,
        "site_spacing": [1.0, 0.37][seed % 2],
    }


def expand_crowd(c):
    """the full time-course spec (mode 'motion') of a crowd description - a pure function of it"""
    rng = np.random.default_rng([c["n"], c["seed"]])
    dim, n, s = c["dim"], c["n"], c["site_spacing"]
    m = int(np.ceil((1.15 * n) ** (1.0 / dim))) + 1
    periodic = list(c["periodic"])
    origin = [gen.r6(s * float(rng.integers(-3, 4))) for _ in range(dim)]
    L = [s * m] * dim
    sites = list(itertools.product(range(m), repeat=dim))
    chosen = [sites[i] for i in rng.permutation(len(sites))[:n]]
    radii = {site: s * float(rng.uniform(0.2, 0.29)) for site in chosen}
    v = [s * float(rng.uniform(-0.1, 0.1)) / np.sqrt(dim) if periodic[a] else 0.0 for a in range(dim)]
    frames, ids = [], []
    # along periodic axes the whole lattice is displaced by an arbitrary amount, so that some droplets sit next to (and move across)
    # the periodic boundary
    drift = np.array([float(rng.uniform(0, L[a])) if periodic[a] else 0.0 for a in range(dim)])
    for _k in range(c["nframes"]):
        fr, fid = [], []
        for site in chosen:
            jit = s * rng.uniform(-0.12, 0.12, dim) / np.sqrt(dim)
            if rng.random() < c["p_absent"]:
                continue
            pos = np.array(origin) + (np.array(site) + 0.5) * s + jit + drift
            for a in range(dim):
                if periodic[a] and rng.random() < 0.5:  # stored wrapped into the box
                    pos[a] = origin[a] + (pos[a] - origin[a]) % L[a]
            fr.append({"cls": "SphericalDroplet", "position": [gen.r6(float(x)) for x in pos], "radius": gen.r6(radii[site] * float(rng.uniform(0.97, 1.0)))})
            fid.append(list(site))
        # the order within a frame carries no meaning: shuffle it, so that identities are not aligned with list positions
        perm = rng.permutation(len(fr))
        frames.append([fr[i] for i in perm])
        ids.append([fid[i] for i in perm])
        drift = drift + np.array(v)
    md = c["max_dist"]
    return {
        "mode": "motion",
        "crowd": n,
        "dim": dim,
        "site_spacing": s,
        "grid": {"origin": origin, "shape": [m] * dim, "spacing": [s] * dim, "periodic": periodic} if c["has_grid"] else None,
        "times": [gen.r6(0.5 * k - 1.0) for k in range(c["nframes"])],
        "frames": frames,
        "ids": ids,
        "method": c["method"],
        "max_dist": md if md in (None, "inf") else gen.r6(float(md) * s),
    }


# --- exhaustive 1-D lattice -----------------------------------------------------------------
def lattice_jobs(nsites, nframes=3):
    jobs = []
    for per in (False, True):
        for method, md in (("overlap", None), ("distance", None), ("distance", 0.5), ("distance", 1.2)):
            for first in range(2**nsites):
                jobs.append({"domain": f"lattice-1d-{nsites}sites-{nframes}frames", "nsites": nsites, "nframes": nframes, "periodic": per, "method": method, "max_dist": md, "first": first})
    # the same structure with droplets of radius 1/2 exactly on the sites: neighbours touch exactly (distance = sum of the radii, all
    # arithmetic exact), which is judged without any tolerance
    for per in (False, True):
        for first in range(2**nsites):
            jobs.append({"domain": f"lattice-1d-{nsites}sites-exactly-touching", "nsites": nsites, "nframes": nframes, "periodic": per, "method": "overlap", "max_dist": None, "first": first, "exact": True})
    return jobs


# the structure of the histories is enumerated completely for every (periodicity, method, cut-off) combination; the time axis
# differs between the combinations: irregular, far from zero with unit steps, tiny, and passing through exactly zero
_LATTICE_TIME_AXES = {
    (True, "overlap", None): [1e6, 1e6 + 1, 1e6 + 2],
    (True, "distance", None): [1e-9, 2e-9, 3e-9],
    (True, "distance", 0.5): [-1, 0, 1],
    (False, "distance", 1.2): [-2.5, 0.0, 0.5],
}


def _lattice_times(job):
    if job["nframes"] > 3:
        return list(range(job["nframes"]))
    axis = _LATTICE_TIME_AXES.get((bool(job["periodic"]), job["method"], job["max_dist"]), [0, 1.5, 4])
    return axis[: job["nframes"]]


def lattice_expand(job):
    n = job["nsites"]
    subsets = list(range(2**n))
    for rest in itertools.product(subsets, repeat=job["nframes"] - 1):
        fsets = (job["first"],) + rest
        frames = []
        for k, bits in enumerate(fsets):
            fr = []
            for i in range(n):
                if (bits >> i) & 1:
                    jit = 0.02 * (((7 * i + 3 * k + i * k) % 5) - 2)  # deterministic, makes distances distinct
                    r = 0.85 if (k == 1 and (i + k) % 2 == 0) else 0.3  # big droplets overlap their neighbours
                    if job.get("exact"):
                        jit, r = 0.0, (0.75 if (k == 1 and i % 3 == 0) else 0.5)  # 0.5: touches its neighbours exactly; 0.75 + 0.5 overlaps them
                    fr.append({"cls": "SphericalDroplet", "position": [i + 0.5 + jit], "radius": r})
            frames.append(fr)
        yield {
            "mode": "lattice-exhaustive",
            "dim": 1,
            "site_spacing": 1.0,
            "grid": {"origin": [0.0], "shape": [n], "spacing": [1.0], "periodic": [True]} if job["periodic"] else None,
            "times": _lattice_times(job),
            "frames": frames,
            "method": job["method"],
            "max_dist": job["max_dist"],
            **({"exact": True} if job.get("exact") else {}),
        }


# --- builders ---------------------------------------------------------------------------------
def build_droplet(d):
    import droplets

    cls = getattr(droplets, d["cls"]) if hasattr(droplets, d["cls"]) else getattr(droplets.droplets, d["cls"])
    pos, rad = gen.as_given(d["position"], d["radius"], d)
    if d["cls"] == "SphericalDroplet":
        return cls(pos, rad)
    if "amplitudes" in d:
        amps = np.array(d["amplitudes"], float) if len(d["amplitudes"]) % 2 else [float(a) for a in d["amplitudes"]]
        return cls(pos, rad, d.get("interface_width"), amps)
    return cls(pos, rad, d.get("interface_width"))


def build_time_course(spec):
    from droplets import Emulsion, EmulsionTimeCourse

    ems = [Emulsion([build_droplet(d) for d in fr]) for fr in spec["frames"]]
    etc = EmulsionTimeCourse(gen.frames_as_given(ems, spec["times"]), gen.times_as_given(spec["times"], spec["frames"])) if spec["frames"] else EmulsionTimeCourse()
    if spec["grid"] is not None:
        geom, grid = gen.build_cart(spec["grid"])
    else:
        dim = spec["dim"]
        geom, grid = O.CartGeom([0.0] * dim, [1] * dim, [1.0] * dim, [False] * dim), None
    return etc, geom, grid


def run_tracker(spec, etc, grid):
    from droplets import DropletTrackList

    kw = {}
    if spec["max_dist"] is not None:
        kw["max_dist"] = float("inf") if spec["max_dist"] == "inf" else spec["max_dist"]
    return DropletTrackList.from_emulsion_time_course(etc, method=spec["method"], grid=grid, **kw)


def snapshot(etc):
    return (
        [type(t).__name__ + repr(t) for t in etc.times],
        [[(type(d).__name__, d.data.tobytes(), id(d)) for d in e] for e in etc.emulsions],
        [id(e) for e in etc.emulsions],
    )


def frame_has_overlap(frame, geom, tol):
    if len(frame) < 2:
        return False
    P = np.array([d["position"] for d in frame], float)
    R = np.array([d["radius"] for d in frame], float)
    for i in range(len(frame) - 1):
        dd = np.linalg.norm(geom.min_image(P[i] - P[i + 1 :]), axis=1)
        if np.any(dd < R[i] + R[i + 1 :] + tol):
            return True
    return False


def tkey(t):
    """exact value of a time stamp (int, float or numpy scalar) - integers beyond 2**53 must not be rounded"""
    from fractions import Fraction

    if isinstance(t, (int, np.integer)) and not isinstance(t, bool):
        return Fraction(int(t))
    return Fraction(float(t))


def identify(tracks, etc):
    """Map every track entry to (frame index, index in frame); returns (list of lists, problems)."""
    tindex = {}
    for k, t in enumerate(etc.times):
        tindex.setdefault(tkey(t), k)
    pools = []
    for e in etc.emulsions:
        pool = {}
        for j, d in enumerate(e):
            pool.setdefault((type(d).__name__, d.data.tobytes()), []).append(j)
        pools.append(pool)
    out = []
    problems = []
    for tr in tracks:
        ent = []
        for t, d in zip(tr.times, tr.droplets):
            k = tindex.get(tkey(t))
            if k is None:
                problems.append(f"track entry with time {t!r} that is not a frame time")
                ent.append(None)
                continue
            lst = pools[k].get((type(d).__name__, d.data.tobytes()))
            if not lst:
                problems.append(f"track entry at t={t!r} ({d}) is not an (unused) droplet of that frame")
                ent.append(None)
                continue
            ent.append((k, lst.pop(0)))
        out.append(ent)
    left = sum(len(v) for pool in pools for v in pool.values())
    if left:
        problems.append(f"{left} droplet(s) of the time course appear in no track")
    return out, problems
