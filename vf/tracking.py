"""Shared generators / builders / oracles for the tracking properties C06 and C07."""

from __future__ import annotations

import itertools
from collections import Counter

import numpy as np
from hypothesis import strategies as st

from vf import gen
from vf import oracles as O

finite = gen.finite


def _times(draw, n):
    kind = draw(st.sampled_from(["int", "float", "neg", "irregular", "offset", "tiny", "big-int"]))
    if kind == "big-int":  # integer time stamps (nanoseconds since the epoch) that a double cannot tell apart
        t = 1_760_000_000_000_000_000 + draw(st.integers(0, 10**6))
        out = []
        for _ in range(n):
            out.append(t)
            t += draw(st.sampled_from([1, 3, 100, 255, 1000]))
        return out
    if kind == "int":
        t0 = draw(st.integers(-5, 5))
        return [t0 + i for i in range(n)]
    if kind == "offset":  # frame spacing that is small compared with the absolute time (all values exactly representable)
        t0 = draw(st.sampled_from([-1.0, 1.0])) * 10.0 ** draw(st.integers(4, 12))
        out, t = [], t0
        for _ in range(n):
            out.append(t)
            t += draw(st.sampled_from([0.25, 0.5, 1.0, 1.0, 2.0, 8.0]))
        return out
    if kind == "tiny":  # times that are all tiny in absolute terms
        u = 10.0 ** -draw(st.integers(6, 12))
        k0 = draw(st.integers(-20, 20))
        out, k = [], k0
        for _ in range(n):
            out.append(k * u)
            k += draw(st.integers(1, 5))
        return out
    steps = [gen.r6(draw(st.floats(0.01, 10, **finite))) for _ in range(n)]
    t0 = gen.r6(draw(st.floats(-100, 100, **finite))) if kind in ("neg", "irregular") else 0.0
    out = []
    t = t0
    for s in steps:
        out.append(gen.r6(t))
        t += s
    # ensure strictly increasing after rounding
    for i in range(1, n):
        if out[i] <= out[i - 1]:
            out[i] = out[i - 1] + 0.5
    return out


def _droplet(draw, cls, dim, pos, r, s):
    d = {"cls": cls, "position": [float(x) for x in pos], "radius": float(r)}
    if cls != "SphericalDroplet":
        d["interface_width"] = draw(st.sampled_from([None, 0.0, gen.r6(0.1 * s)]))
    if cls in ("PerturbedDroplet2D", "PerturbedDroplet3D"):
        d["amplitudes"] = [gen.r6(draw(st.floats(-0.1, 0.1, **finite))) for _ in range(2)]
    return d


@st.composite
def time_courses(draw, mode=None, tier="quick"):
    """mode: 'free' (may overlap within a frame), 'lattice' (no within-frame overlap), 'motion' (identities)"""
    if mode is None:
        mode = draw(st.sampled_from(["free", "lattice", "lattice", "motion"]))
    dim = draw(st.sampled_from([1, 1, 2, 2, 3]))
    m = draw(st.integers(2, 5 if dim == 1 else 3))
    s = gen.r6(10 ** draw(st.floats(-1, 1, **finite)))  # site spacing
    L = [s * m] * dim
    origin = [gen.r6(s * draw(st.integers(-3, 3))) for _ in range(dim)]
    has_grid = draw(st.booleans())
    periodic = [draw(st.booleans()) for _ in range(dim)] if has_grid else [False] * dim
    if mode == "motion" and has_grid and draw(st.booleans()):
        periodic = [True] * dim
    nframes = draw(st.integers(0, 6 if tier == "quick" else 10))
    classes = ["SphericalDroplet", "DiffuseDroplet"] + (["PerturbedDroplet2D"] if dim == 2 else []) + (["PerturbedDroplet3D"] if dim == 3 else [])
    cls0 = draw(st.sampled_from(classes))
    mixed = draw(st.integers(0, 5)) == 0
    sites = list(itertools.product(range(m), repeat=dim))
    max_n = 5 if tier == "quick" else 8
    frames, ids = [], []
    drift = [0.0] * dim
    if mode == "motion":
        v = [gen.r6(s * draw(st.floats(-0.1, 0.1, **finite)) / np.sqrt(dim)) if periodic[a] else 0.0 for a in range(dim)]
        chosen = draw(st.lists(st.sampled_from(sites), min_size=1, max_size=min(max_n, len(sites)), unique=True))
        radii0 = {site: gen.r6(s * draw(st.floats(0.2, 0.29, **finite))) for site in chosen}
    for k in range(nframes):
        fr, fid = [], []
        if mode == "free":
            for _ in range(draw(st.integers(0, max_n))):
                pos = [origin[a] + L[a] * draw(st.floats(-0.5, 1.5, **finite)) for a in range(dim)]
                pos = [gen.r6(x) for x in pos]
                r = gen.r6(s * draw(st.sampled_from([0.0, 0.1, 0.3, 0.6, 1.0])) * draw(st.floats(0.5, 1, **finite)))
                cls = draw(st.sampled_from(classes)) if mixed else cls0
                fr.append(_droplet(draw, cls, dim, pos, r, s))
                fid.append(None)
            if fr and draw(st.integers(0, 3)) == 0:  # an exact duplicate of a droplet of this frame (bit-identical data)
                fr.insert(draw(st.integers(0, len(fr))), dict(fr[draw(st.integers(0, len(fr) - 1))]))
                fid.append(None)
        elif mode == "lattice":
            sub = draw(st.lists(st.sampled_from(sites), min_size=0, max_size=min(max_n, len(sites)), unique=True))
            for site in sub:
                jit = [s * draw(st.floats(-0.2, 0.2, **finite)) for _ in range(dim)]
                pos = [origin[a] + (site[a] + 0.5) * s + jit[a] for a in range(dim)]
                wrapk = [draw(st.integers(-1, 1)) if periodic[a] else 0 for a in range(dim)]
                pos = [gen.r6(pos[a] + wrapk[a] * L[a]) for a in range(dim)]
                r = gen.r6(s * draw(st.floats(0.01, 0.29, **finite)))
                cls = draw(st.sampled_from(classes)) if mixed else cls0
                fr.append(_droplet(draw, cls, dim, pos, r, s))
                fid.append(None)
        else:
            for site in chosen:
                if draw(st.integers(0, 4)) == 0:
                    continue  # absent in this frame
                jit = [s * draw(st.floats(-0.12, 0.12, **finite)) / np.sqrt(dim) for _ in range(dim)]
                pos = [origin[a] + (site[a] + 0.5) * s + jit[a] + drift[a] for a in range(dim)]
                for a in range(dim):
                    if periodic[a] and draw(st.booleans()):  # store wrapped
                        pos[a] = origin[a] + (pos[a] - origin[a]) % L[a]
                pos = [gen.r6(x) for x in pos]
                r = gen.r6(radii0[site] * draw(st.floats(0.97, 1.0, **finite)))
                fr.append(_droplet(draw, cls0, dim, pos, r, s))
                fid.append(list(site))
            drift = [drift[a] + v[a] for a in range(dim)]
        frames.append(fr)
        ids.append(fid)
    method = draw(st.sampled_from(["overlap", "distance"]))
    md = None
    if method == "distance":
        if mode == "motion":
            md = draw(st.sampled_from([None, "inf", gen.r6(0.5 * s), gen.r6(2 * s)]))
        else:
            md = draw(st.sampled_from([None, "inf", 0.0, gen.r6(0.3 * s), gen.r6(s), gen.r6(3 * s), 1e6]))
            pairs = [(k, i, j) for k in range(len(frames) - 1) for i in range(len(frames[k])) for j in range(len(frames[k + 1]))]
            if pairs and draw(st.booleans()):
                # a cut-off just below / exactly at / just above the distance of an actual pair of consecutive frames
                k, i, j = pairs[draw(st.integers(0, len(pairs) - 1))]
                dij = float(np.linalg.norm(np.array(frames[k][i]["position"]) - np.array(frames[k + 1][j]["position"])))
                md = float(dij * draw(st.sampled_from([0.97, 1.0, 1.03, 1.08])))
    spec = {
        "mode": mode,
        "dim": dim,
        "site_spacing": s,
        "grid": {"origin": origin, "shape": [m] * dim, "spacing": [s] * dim, "periodic": periodic} if has_grid else None,
        "times": _times(draw, nframes),
        "frames": frames,
        "method": method,
        "max_dist": md,
    }
    if mode == "motion":
        spec["ids"] = ids
    return spec


# --- exhaustive 1-D lattice -----------------------------------------------------------------
def lattice_jobs(nsites, nframes=3):
    jobs = []
    for per in (False, True):
        for method, md in (("overlap", None), ("distance", None), ("distance", 0.5), ("distance", 1.2)):
            for first in range(2**nsites):
                jobs.append({"domain": f"lattice-1d-{nsites}sites-{nframes}frames", "nsites": nsites, "nframes": nframes, "periodic": per, "method": method, "max_dist": md, "first": first})
    return jobs


# the structure of the histories is enumerated completely for every (periodicity, method, cut-off) combination; the time axis
# differs between the combinations: irregular, far from zero with unit steps, tiny, and passing through exactly zero
_LATTICE_TIME_AXES = {
    (True, "overlap", None): [1e6, 1e6 + 1, 1e6 + 2],
    (True, "distance", None): [1e-9, 2e-9, 3e-9],
    (True, "distance", 0.5): [-1, 0, 1],
    (False, "distance", 1.2): [-2.5, 0.0, 0.5],
}


def _lattice_times(job):
    if job["nframes"] > 3:
        return list(range(job["nframes"]))
    axis = _LATTICE_TIME_AXES.get((bool(job["periodic"]), job["method"], job["max_dist"]), [0, 1.5, 4])
    return axis[: job["nframes"]]


def lattice_expand(job):
    n = job["nsites"]
    subsets = list(range(2**n))
    for rest in itertools.product(subsets, repeat=job["nframes"] - 1):
        fsets = (job["first"],) + rest
        frames = []
        for k, bits in enumerate(fsets):
            fr = []
            for i in range(n):
                if (bits >> i) & 1:
                    jit = 0.02 * (((7 * i + 3 * k + i * k) % 5) - 2)  # deterministic, makes distances distinct
                    r = 0.85 if (k == 1 and (i + k) % 2 == 0) else 0.3  # big droplets overlap their neighbours
                    fr.append({"cls": "SphericalDroplet", "position": [i + 0.5 + jit], "radius": r})
            frames.append(fr)
        yield {
            "mode": "lattice-exhaustive",
            "dim": 1,
            "site_spacing": 1.0,
            "grid": {"origin": [0.0], "shape": [n], "spacing": [1.0], "periodic": [True]} if job["periodic"] else None,
            "times": _lattice_times(job),
            "frames": frames,
            "method": job["method"],
            "max_dist": job["max_dist"],
        }


# --- builders ---------------------------------------------------------------------------------
def build_droplet(d):
    import droplets

    cls = getattr(droplets, d["cls"]) if hasattr(droplets, d["cls"]) else getattr(droplets.droplets, d["cls"])
    pos, rad = gen.as_given(d["position"], d["radius"], d)
    if d["cls"] == "SphericalDroplet":
        return cls(pos, rad)
    if "amplitudes" in d:
        amps = np.array(d["amplitudes"], float) if len(d["amplitudes"]) % 2 else [float(a) for a in d["amplitudes"]]
        return cls(pos, rad, d.get("interface_width"), amps)
    return cls(pos, rad, d.get("interface_width"))


def build_time_course(spec):
    from droplets import Emulsion, EmulsionTimeCourse

    ems = [Emulsion([build_droplet(d) for d in fr]) for fr in spec["frames"]]
    etc = EmulsionTimeCourse(gen.frames_as_given(ems, spec["times"]), gen.times_as_given(spec["times"], spec["frames"])) if spec["frames"] else EmulsionTimeCourse()
    if spec["grid"] is not None:
        geom, grid = gen.build_cart(spec["grid"])
    else:
        dim = spec["dim"]
        geom, grid = O.CartGeom([0.0] * dim, [1] * dim, [1.0] * dim, [False] * dim), None
    return etc, geom, grid


def run_tracker(spec, etc, grid):
    from droplets import DropletTrackList

    kw = {}
    if spec["max_dist"] is not None:
        kw["max_dist"] = float("inf") if spec["max_dist"] == "inf" else spec["max_dist"]
    return DropletTrackList.from_emulsion_time_course(etc, method=spec["method"], grid=grid, **kw)


def snapshot(etc):
    return (
        [type(t).__name__ + repr(t) for t in etc.times],
        [[(type(d).__name__, d.data.tobytes(), id(d)) for d in e] for e in etc.emulsions],
        [id(e) for e in etc.emulsions],
    )


def frame_has_overlap(frame, geom, tol):
    for a, b in itertools.combinations(frame, 2):
        if geom.dist(a["position"], b["position"]) < a["radius"] + b["radius"] + tol:
            return True
    return False


def tkey(t):
    """exact value of a time stamp (int, float or numpy scalar) - integers beyond 2**53 must not be rounded"""
    from fractions import Fraction

    if isinstance(t, (int, np.integer)) and not isinstance(t, bool):
        return Fraction(int(t))
    return Fraction(float(t))


def identify(tracks, etc):
    """Map every track entry to (frame index, index in frame); returns (list of lists, problems)."""
    tindex = {}
    for k, t in enumerate(etc.times):
        tindex.setdefault(tkey(t), k)
    pools = []
    for e in etc.emulsions:
        pool = {}
        for j, d in enumerate(e):
            pool.setdefault((type(d).__name__, d.data.tobytes()), []).append(j)
        pools.append(pool)
    out = []
    problems = []
    for tr in tracks:
        ent = []
        for t, d in zip(tr.times, tr.droplets):
            k = tindex.get(tkey(t))
            if k is None:
                problems.append(f"track entry with time {t!r} that is not a frame time")
                ent.append(None)
                continue
            lst = pools[k].get((type(d).__name__, d.data.tobytes()))
            if not lst:
                problems.append(f"track entry at t={t!r} ({d}) is not an (unused) droplet of that frame")
                ent.append(None)
                continue
            ent.append((k, lst.pop(0)))
        out.append(ent)
    left = sum(len(v) for pool in pools for v in pool.values())
    if left:
        problems.append(f"{left} droplet(s) of the time course appear in no track")
    return out, problems
